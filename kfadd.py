#!/usr/bin/env python3
"""dev helper: kfadd.py <id> <property> <where> <input_class> <deviation> <reproducer>"""
import json, sys
p = '/verif/known_findings.json'
d = json.load(open(p))
i, prop, where, cls, dev, rep = sys.argv[1:7]
d['findings'] = [f for f in d['findings'] if f['id'] != i]
d['findings'].append({"id": i, "property": prop, "status": "open", "where": where, "input_class": cls, "deviation": dev, "reproducer": rep})
d['findings'].sort(key=lambda f: f['id'])
json.dump(d, open(p, 'w'), indent=1)
