package harness

// C15 — Every operator's input gate enforces arity and element types before computing; registry
// lookups are independent. The gate part is enumerated exhaustively.

import (
	"encoding/json"
	"errors"
	"fmt"
	"os"
	"sort"
	"strings"
	"testing"

	"github.com/advancedclimatesystems/gonnx/onnx"
	"github.com/advancedclimatesystems/gonnx/ops"
	"github.com/advancedclimatesystems/gonnx/ops/opset13"
	"gorgonia.org/tensor"
	"pgregory.net/rapid"
)

type c15Case struct {
	Op     string   `json:"op"`
	Dtypes []string `json:"dtypes"` // per supplied input; "nil" = absent optional
}

func oneElem(dt tensor.Dtype) tensor.Tensor {
	return mkT([]int{1}, backingOf(dt, 1, func(int) float64 { return 1 }))
}

func containsDtype(list []tensor.Dtype, d tensor.Dtype) bool {
	for _, x := range list {
		if x == d {
			return true
		}
	}
	return false
}

// c15Check validates one gate call. Returns violation text and a class label.
func c15Check(c c15Case) (string, string) {
	op, err := opset13.GetOperator(c.Op)
	if err != nil {
		return "operator name from GetOpNames does not resolve: " + err.Error(), "lookup"
	}
	minIn, maxIn := op.GetMinInputs(), op.GetMaxInputs()
	cons := op.GetInputTypeConstraints()
	variadic := c.Op == "Concat"
	n := len(c.Dtypes)
	// the list is a prefix of a longer, populated array: what lies beyond its length is not part
	// of the request (an omitted optional input is absent, whatever the spare capacity holds)
	backing := make([]tensor.Tensor, n, n+3)
	inputs := backing[:n]
	for i, d := range c.Dtypes {
		if d != "nil" {
			inputs[i] = oneElem(dtypeByName(d))
		}
	}
	spare := backing[:n+3]
	for i := n; i < n+3; i++ {
		spare[i] = oneElem(tensor.Int64)
	}
	supplied := append([]tensor.Tensor{}, inputs...)

	var out []tensor.Tensor
	var pan any
	func() {
		defer func() { pan = recover() }()
		out, err = op.ValidateInputs(inputs)
	}()
	if pan != nil {
		return fmt.Sprintf("gate panics: %v", pan), "panic"
	}
	var ie *ops.InputError
	countOK := n >= minIn && (n <= maxIn || variadic)
	if !countOK {
		if err == nil {
			return fmt.Sprintf("%d inputs accepted, operator takes %d..%d", n, minIn, maxIn), "count"
		}
		if !errors.As(err, &ie) {
			return fmt.Sprintf("wrong count rejected with %T (%v), want *ops.InputError", err, err), "count"
		}
		return "", "count-rejected"
	}
	// expected dtype verdict
	badPos := -1
	for i, d := range c.Dtypes {
		if d == "nil" {
			continue
		}
		allowed := ops.AllTypes
		if !variadic {
			if i >= len(cons) {
				return fmt.Sprintf("operator reports max %d inputs but only %d type constraints", maxIn, len(cons)), "meta"
			}
			allowed = cons[i]
		}
		if !containsDtype(allowed, dtypeByName(d)) {
			badPos = i
			break
		}
	}
	if badPos >= 0 {
		if err == nil {
			return fmt.Sprintf("dtype %s accepted at position %d although the operator's constraints exclude it", c.Dtypes[badPos], badPos), "type"
		}
		if !errors.As(err, &ie) {
			return fmt.Sprintf("disallowed dtype rejected with %T (%v), want *ops.InputError", err, err), "type"
		}
		return "", "type-rejected"
	}
	if err != nil {
		// operator-specific gates layered on top: PRelu requires equal dtypes
		if c.Op == "PRelu" && n == 2 && c.Dtypes[0] != c.Dtypes[1] {
			return "", "prelu-dtype-mismatch-rejected"
		}
		return fmt.Sprintf("acceptable input list rejected: %v", err), "accept"
	}
	if c.Op == "PRelu" && n == 2 && c.Dtypes[0] != c.Dtypes[1] {
		return "PRelu accepted operands of different element types", "accept"
	}
	wantLen := maxIn
	if variadic {
		wantLen = n
	}
	if len(out) != wantLen {
		return fmt.Sprintf("accepted list has length %d, want %d", len(out), wantLen), "accept"
	}
	for i := range out {
		if i < n {
			if out[i] != supplied[i] {
				return fmt.Sprintf("input %d is not passed through unchanged (different object)", i), "accept"
			}
		} else if out[i] != nil {
			return fmt.Sprintf("omitted trailing optional input %d is not presented as absent", i), "accept"
		}
	}
	if got := len(op.GetInputTypeConstraints()); got < op.GetMaxInputs() {
		return fmt.Sprintf("after ValidateInputs the operator reports max %d inputs but %d type constraints", op.GetMaxInputs(), got), "meta"
	}
	return "", "accepted"
}

// c15Enumerate calls f for every gate case of the finite space.
func c15Enumerate(f func(c c15Case, baseline bool) bool) {
	names := opset13.GetOpNames()
	sort.Strings(names)
	allNames := make([]string, len(ops.AllTypes))
	for i, d := range ops.AllTypes {
		allNames[i] = d.String()
	}
	for _, name := range names {
		op, _ := opset13.GetOperator(name)
		minIn, maxIn := op.GetMinInputs(), op.GetMaxInputs()
		cons := op.GetInputTypeConstraints()
		top := maxIn + 2
		if name == "Concat" {
			top = 6
		}
		base := func(i int) string {
			if name == "Concat" || i >= len(cons) || len(cons[i]) == 0 {
				return "float32"
			}
			// prefer a dtype every position accepts (float32 if allowed), else the first allowed one
			if containsDtype(cons[i], tensor.Float32) {
				return "float32"
			}
			return cons[i][0].String()
		}
		for n := 0; n <= top; n++ {
			dts := make([]string, n)
			for i := range dts {
				dts[i] = base(i)
			}
			if !f(c15Case{name, append([]string{}, dts...)}, true) {
				return
			}
			if n > maxIn && name != "Concat" {
				// a list that is too long stays too long when its surplus entries (or everything
				// from the first optional position on) are absent inputs
				for _, from := range []int{maxIn, minIn} {
					if from >= n {
						continue
					}
					v := append([]string{}, dts...)
					for i := from; i < n; i++ {
						v[i] = "nil"
					}
					if !f(c15Case{name, v}, false) {
						return
					}
				}
				continue
			}
			if n < minIn {
				continue
			}
			for p := 0; p < n; p++ {
				for _, d := range allNames {
					if d == dts[p] {
						continue
					}
					v := append([]string{}, dts...)
					v[p] = d
					if !f(c15Case{name, v}, false) {
						return
					}
				}
				if p >= minIn {
					v := append([]string{}, dts...)
					v[p] = "nil"
					if !f(c15Case{name, v}, false) {
						return
					}
					// product: an absent optional input at p together with every element type at every
					// other position (an absent input must not switch the type check off for the rest)
					for q := 0; q < n; q++ {
						if q == p {
							continue
						}
						for _, d := range allNames {
							if d == dts[q] {
								continue
							}
							w := append([]string{}, v...)
							w[q] = d
							if !f(c15Case{name, w}, false) {
								return
							}
						}
					}
				}
			}
		}
	}
}

// ---- registry independence (rapid, stateful) -------------------------------------------------

type opInvocation struct {
	op   string
	node *onnx.NodeProto
	ins  []tensor.Tensor
	desc string
}

// genInvocation draws one (operator, attributes, inputs) triple from the family generators.
func genInvocation(rt *rapid.T, family int) opInvocation {
	switch family {
	case 0:
		c := c07Gen(rt)
		return opInvocation{c.op, c.node, c.inputs(), c.String()}
	case 1:
		c := c08Gen(rt)
		return opInvocation{c.op, c.node, c.inputs(), c.String()}
	case 2:
		c := c09Gen(rt)
		return opInvocation{c.op, c.node, []tensor.Tensor{cloneT(c.x)}, c.String()}
	case 3:
		c := c04Gen(rt)
		return opInvocation{c.op, c.node, cloneTs(c.ins), c.String()}
	case 4:
		c := c11Gen(rt)
		return opInvocation{c.op, c.node, cloneTs(c.ins), c.String()}
	case 5:
		c := genRnnCase(rt)
		return opInvocation{c.kind, c.node(), c.inputs(), c.String()}
	default:
		g := genConvGeom(rt)
		x := toDtype(tensor.Float32, append([]int{g.n, g.c}, g.in...), genDotValues(rt, g.n*g.c*prod(g.in), "x"))
		w := toDtype(tensor.Float32, append([]int{g.m, g.c}, g.k...), genDotValues(rt, g.m*g.c*prod(g.k), "w"))
		return opInvocation{"Conv", g.node(), []tensor.Tensor{x, w}, g.String()}
	}
}

func sameOutcome(a, b opResult) string {
	if a.panicked != b.panicked || (a.err == nil) != (b.err == nil) {
		return fmt.Sprintf("%v vs %v", a, b)
	}
	if !a.ok() {
		return ""
	}
	if len(a.outs) != len(b.outs) {
		return "output count differs"
	}
	for i := range a.outs {
		if d := approxSame(a.outs[i], b.outs[i], 1e-5); d != "" {
			return fmt.Sprintf("output %d: %s", i, d)
		}
	}
	return ""
}

func TestC15(t *testing.T) {
	ev.Begin("C15",
		"enumerated: every operator of GetOpNames x every input count 0..max+2 (Concat 0..6) x for each accepted count every one of the 14 element types at every position (other positions holding an allowed type) and nil at every optional position, alone and combined with every element type at every other position; "+
			"generated (rapid, stateful): 2..4 live instances of one operator name, each with its own generated attributes and inputs, looked up / initialised / applied in a drawn interleaving and compared with the same invocation run in isolation; unknown names (case variants, prefixes, empty, random strings). "+
			"Non-trivial = every gate tuple other than the all-allowed baseline; every interleaving with >= 2 instances whose attributes differ. Distinct = the tuple / the invocation set.",
		"the gate is observed through Operator.ValidateInputs on fresh instances; error kinds are identified with errors.As(*ops.InputError)")
	defer reportKnownFindings("C15")

	if p := os.Getenv("VERIF_REPLAY_CASE"); p != "" {
		b, err := os.ReadFile(p)
		if err != nil {
			t.Fatalf("VERIF-INCONCLUSIVE cannot read replay case: %v", err)
		}
		var c c15Case
		if err := json.Unmarshal(b, &c); err != nil {
			t.Fatalf("VERIF-INCONCLUSIVE bad replay case: %v", err)
		}
		v, cls := c15Check(c)
		ev.Case("replay", fmt.Sprint(c), true, cls)
		if v != "" {
			t.Fatalf("C15 violated by %+v: %s", c, v)
		}
		return
	}

	t.Run("gate-enumerated", func(t *testing.T) {
		if shard() != 0 {
			return // finite and small: enumerated completely by shard 0
		}
		names := opset13.GetOpNames()
		ev.Extra("registered_operators", len(names))
		c15Enumerate(func(c c15Case, baseline bool) bool {
			v, cls := c15Check(c)
			ev.Case("gate", fmt.Sprintf("%s %v", c.Op, c.Dtypes), !baseline, cls)
			if v != "" {
				if again, _ := c15Check(c); again == "" {
					t.Errorf("VERIF-INCONCLUSIVE C15 %s %v failed once (%s) and passed when repeated", c.Op, c.Dtypes, v)
					return false
				}
				writeFailCase("C15", c)
				t.Errorf("C15 violated by %s %v: %s", c.Op, c.Dtypes, v)
				return false
			}
			return true
		})
		ev.Exhaustive("gate", true)
	})

	t.Run("gate-instance-reused", func(t *testing.T) {
		if shard() != 0 {
			return
		}
		// the gate of an instance that has already validated a list of another length answers like
		// a fresh one (enumerated: every operator x every ordered pair of accepted input counts)
		names := opset13.GetOpNames()
		sort.Strings(names)
		for _, name := range names {
			probe, _ := opset13.GetOperator(name)
			lo, hi := probe.GetMinInputs(), probe.GetMaxInputs()
			if name == "Concat" {
				hi = 6
			}
			cons := probe.GetInputTypeConstraints()
			mk := func(n int) []tensor.Tensor {
				ins := make([]tensor.Tensor, n)
				for i := range ins {
					dt := tensor.Float32
					if name != "Concat" && i < len(cons) && len(cons[i]) > 0 && !containsDtype(cons[i], tensor.Float32) {
						dt = cons[i][0]
					}
					ins[i] = oneElem(dt)
				}
				return ins
			}
			for n1 := lo; n1 <= hi; n1++ {
				for n2 := lo; n2 <= hi; n2++ {
					if n1 == n2 {
						continue
					}
					fresh, _ := opset13.GetOperator(name)
					want, wantErr := fresh.ValidateInputs(mk(n2))
					used, _ := opset13.GetOperator(name)
					_, _ = used.ValidateInputs(mk(n1))
					got, gotErr := used.ValidateInputs(mk(n2))
					ev.Case("gate-reuse", fmt.Sprintf("%s %d then %d inputs", name, n1, n2), true, "reused")
					bad := (wantErr == nil) != (gotErr == nil) || (wantErr == nil && len(want) != len(got))
					if !bad && wantErr == nil {
						for i := range want {
							if (want[i] == nil) != (got[i] == nil) {
								bad = true
							}
						}
					}
					if bad {
						t.Fatalf("C15 violated: the gate of a %s instance that validated %d inputs before answers a list of %d inputs with (%d entries, %v), a fresh instance with (%d entries, %v)", name, n1, n2, len(got), gotErr, len(want), wantErr)
					}
				}
			}
		}
		ev.Exhaustive("gate-reuse", true)
	})

	check(t, "registry", 6000, 60000, func(rt *rapid.T) {
		if rapid.IntRange(0, 9).Draw(rt, "unknownName") == 0 {
			names := opset13.GetOpNames()
			sort.Strings(names)
			base := rapid.SampledFrom(names).Draw(rt, "base")
			name := rapid.SampledFrom([]string{"", "abs", "ABS", base + " ", " " + base, base[:len(base)-1], base + "2", base + "\x00", base + "\x00\x00", "\x00" + base, base + "\t", base + "\n", strings.ToLower(base), strings.ToUpper(base), base + base, "Identity", "com.microsoft." + base, "ai.onnx." + base, "ai.onnx.ml." + base, "onnx::" + base}).Draw(rt, "variant")
			if rapid.Bool().Draw(rt, "random") {
				name = rapid.StringMatching(`[A-Za-z]{1,12}`).Draw(rt, "name")
			}
			known := false
			for _, n := range names {
				if n == name {
					known = true
				}
			}
			op, err := opset13.GetOperator(name)
			ev.Case("registry", "lookup "+fmt.Sprintf("%q", name), true, "unknown-name")
			if !known && (op != nil || !errors.Is(err, ops.ErrUnsupportedOperator)) {
				rt.Fatalf("C15 violated: lookup of %q gives (%v, %v), want the unsupported-operator error", name, op, err)
			}
			return
		}
		family := rapid.IntRange(0, 6).Draw(rt, "family")
		forceOp = ""
		first := genInvocation(rt, family)
		forceOp = first.op
		defer func() { forceOp = "" }()
		k := rapid.IntRange(2, 4).Draw(rt, "instances")
		invs := []opInvocation{first}
		for len(invs) < k {
			invs = append(invs, genInvocation(rt, family))
		}
		forceOp = ""
		for _, iv := range invs {
			if iv.op != first.op {
				rt.Fatalf("harness: generator ignored forceOp")
			}
		}
		// isolated runs (fresh operator each, fresh copies of the inputs)
		iso := make([]opResult, k)
		for i, iv := range invs {
			iso[i] = runOp(iv.op, iv.node, cloneTs(iv.ins))
		}
		// interleaved: steps lookup -> init -> validate+apply per instance, in a drawn order
		live := make([]ops.Operator, k)
		stage := make([]int, k)
		got := make([]opResult, k)
		ins := make([][]tensor.Tensor, k)
		for i, iv := range invs {
			ins[i] = cloneTs(iv.ins)
		}
		var order []int
		remaining := 3 * k
		for remaining > 0 {
			i := rapid.IntRange(0, k-1).Draw(rt, "next")
			for stage[i] == 3 {
				i = (i + 1) % k
			}
			order = append(order, i)
			func() {
				defer func() {
					if r := recover(); r != nil {
						got[i].panicked, got[i].panicVal = true, r
						remaining -= 3 - stage[i]
						stage[i] = 3
					}
				}()
				switch stage[i] {
				case 0:
					op, err := opset13.GetOperator(invs[i].op)
					if err != nil {
						rt.Fatalf("lookup failed: %v", err)
					}
					live[i] = op
				case 1:
					if err := live[i].Init(invs[i].node); err != nil {
						got[i].err, got[i].stage = err, "init"
						remaining -= 1
						stage[i] = 2
					}
				case 2:
					if got[i].err == nil {
						v, err := live[i].ValidateInputs(ins[i])
						if err == nil {
							v, err = live[i].Apply(v)
						}
						got[i].outs, got[i].err = v, err
					}
				}
				stage[i]++
				remaining--
			}()
		}
		desc := first.op
		for _, iv := range invs {
			desc += " | " + descNode(iv.node)
		}
		distinctAttrs := false
		for _, iv := range invs[1:] {
			if descNode(iv.node) != descNode(first.node) {
				distinctAttrs = true
			}
		}
		ev.Case("registry", desc+fmt.Sprint(order), distinctAttrs, "op-"+first.op, fmt.Sprintf("instances-%d", k))
		for i := range invs {
			if d := sameOutcome(iso[i], got[i]); d != "" {
				rt.Fatalf("C15 violated: instance %d of %s (%s) behaves differently when interleaved with other lookups of the same name (order %v): %s", i, first.op, invs[i].desc, order, d)
			}
		}
	})
}
