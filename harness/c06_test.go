package harness

// C06 — RNN, GRU, LSTM implement the ONNX recurrences, consistently under splitting.

import (
	"fmt"
	"math"
	"testing"

	"github.com/advancedclimatesystems/gonnx/onnx"
	"gorgonia.org/tensor"
	"pgregory.net/rapid"
)

type rnnCase struct {
	kind        string // RNN | GRU | LSTM
	S, B, I, H  int
	X, W, R     []float32
	Bias        []float32 // nil if absent
	H0, C0, P   []float32
	lbr         int      // linear_before_reset: -1 absent, 0, 1
	inputForget int      // -1 absent, 0, 1
	acts        []string // nil = attribute absent
	dt          tensor.Dtype
	explicitNil bool // absent optional inputs passed as explicit nil instead of being left out
	outNames    int  // 0: Y, Y_h, Y_c; 1: last left unnamed; 2: only Y named; 3: Y unnamed; 4: arbitrary names
	attrRot     int  // rotation of the attribute list
	sameState   bool // LSTM: initial_h and initial_c are the same tensor object
}

func (c rnnCase) gates() int { return map[string]int{"RNN": 1, "GRU": 3, "LSTM": 4}[c.kind] }

func (c rnnCase) String() string {
	return fmt.Sprintf("%s seq=%d batch=%d input=%d hidden=%d B=%v H0=%v C0=%v P=%v lbr=%d input_forget=%d acts=%v %v nil=%v #%x",
		c.kind, c.S, c.B, c.I, c.H, c.Bias != nil, c.H0 != nil, c.C0 != nil, c.P != nil, c.lbr, c.inputForget, c.acts, c.dt, c.explicitNil,
		hash64(fmt.Sprint(c.X, c.W, c.R, c.Bias, c.H0, c.C0, c.P)))
}

func actFunc(name string) func(float64) float64 {
	switch name {
	case "tanh", "Tanh":
		return math.Tanh
	case "sigmoid", "Sigmoid":
		return sigmoidStable
	case "relu", "Relu":
		return func(x float64) float64 {
			if x < 0 {
				return 0
			}
			return x
		}
	}
	return nil
}

// refRecurrent: float64 reference of the ONNX equations with ONNX packing (iofc / zrh, Wb then Rb,
// P = [i,o,f]). Returns Y [S,B,H], Yh [B,H], Yc [B,H]; ok=false if an activation is not modelled.
func refRecurrent(c rnnCase, inputForget bool) (Y, Yh, Yc []float64, ok bool) {
	S, B, I, H := c.S, c.B, c.I, c.H
	G := c.gates()
	def := map[string][]string{"RNN": {"tanh"}, "GRU": {"sigmoid", "tanh"}, "LSTM": {"sigmoid", "tanh", "tanh"}}[c.kind]
	names := def
	if c.acts != nil {
		names = c.acts
	}
	if len(names) != len(def) {
		return nil, nil, nil, false
	}
	fs := make([]func(float64) float64, len(names))
	for i, n := range names {
		if fs[i] = actFunc(n); fs[i] == nil {
			return nil, nil, nil, false
		}
	}
	w := func(g, h, i int) float64 { return float64(c.W[(g*H+h)*I+i]) }
	r := func(g, h, j int) float64 { return float64(c.R[(g*H+h)*H+j]) }
	wb := func(g, h int) float64 {
		if c.Bias == nil {
			return 0
		}
		return float64(c.Bias[g*H+h])
	}
	rb := func(g, h int) float64 {
		if c.Bias == nil {
			return 0
		}
		return float64(c.Bias[(G+g)*H+h])
	}
	p := func(g, h int) float64 {
		if c.P == nil {
			return 0
		}
		return float64(c.P[g*H+h])
	}
	Hs, Cs := make([]float64, B*H), make([]float64, B*H)
	for i := range c.H0 {
		Hs[i] = float64(c.H0[i])
	}
	for i := range c.C0 {
		Cs[i] = float64(c.C0[i])
	}
	x := func(s, b, i int) float64 { return float64(c.X[(s*B+b)*I+i]) }
	for s := 0; s < S; s++ {
		nH, nC := make([]float64, B*H), make([]float64, B*H)
		for b := 0; b < B; b++ {
			xw := func(g, h int) float64 {
				a := wb(g, h)
				for i := 0; i < I; i++ {
					a += x(s, b, i) * w(g, h, i)
				}
				return a
			}
			hr := func(g, h int, hv func(j int) float64) float64 {
				a := rb(g, h)
				for j := 0; j < H; j++ {
					a += hv(j) * r(g, h, j)
				}
				return a
			}
			prev := func(j int) float64 { return Hs[b*H+j] }
			switch c.kind {
			case "RNN":
				for h := 0; h < H; h++ {
					nH[b*H+h] = fs[0](xw(0, h) + hr(0, h, prev))
				}
			case "GRU":
				z, rt := make([]float64, H), make([]float64, H)
				for h := 0; h < H; h++ {
					z[h] = fs[0](xw(0, h) + hr(0, h, prev))
					rt[h] = fs[0](xw(1, h) + hr(1, h, prev))
				}
				for h := 0; h < H; h++ {
					var ht float64
					if c.lbr != 1 {
						ht = fs[1](xw(2, h) + hr(2, h, func(j int) float64 { return rt[j] * prev(j) }))
					} else {
						ht = fs[1](xw(2, h) + rt[h]*hr(2, h, prev))
					}
					nH[b*H+h] = (1-z[h])*ht + z[h]*prev(h)
				}
			case "LSTM":
				for h := 0; h < H; h++ {
					cp := Cs[b*H+h]
					it := fs[0](xw(0, h) + hr(0, h, prev) + p(0, h)*cp)
					ft := fs[0](xw(2, h) + hr(2, h, prev) + p(2, h)*cp)
					if inputForget {
						ft = 1 - it
					}
					ct := fs[1](xw(3, h) + hr(3, h, prev))
					Ct := ft*cp + it*ct
					ot := fs[0](xw(1, h) + hr(1, h, prev) + p(1, h)*Ct)
					nC[b*H+h] = Ct
					nH[b*H+h] = ot * fs[2](Ct)
				}
			}
		}
		Hs, Cs = nH, nC
		Y = append(Y, Hs...)
	}
	return Y, Hs, Cs, true
}

func genRnnCase(rt *rapid.T) rnnCase {
	var c rnnCase
	c.kind = drawOp(rt, []string{"RNN", "GRU", "LSTM"})
	c.S = rapid.SampledFrom([]int{1, 1, 2, 2, 3, 4, 5, 8, 2, 3, 17, 40}).Draw(rt, "seq")
	c.B = rapid.SampledFrom([]int{1, 1, 2, 3, 4, 1, 2, 3, 9, 17, 33, 34}).Draw(rt, "batch")
	c.I = rapid.SampledFrom([]int{1, 2, 2, 3, 4, 1, 2, 3, 16, 17}).Draw(rt, "input")
	c.H = rapid.SampledFrom([]int{1, 2, 2, 3, 3, 4, 5, 1, 2, 3, 4, 5, 16, 33}).Draw(rt, "hidden")
	for c.S*c.B*c.I > 1500 {
		c.S = (c.S + 1) / 2
	}
	G := c.gates()
	c.X = smallF32s(rt, c.S*c.B*c.I, 2, "x")
	c.W = smallF32s(rt, G*c.H*c.I, 1, "w")
	c.R = smallF32s(rt, G*c.H*c.H, 1, "r")
	for i := range c.W {
		c.W[i] /= 2
	}
	for i := range c.R {
		c.R[i] /= 2
	}
	nz := func(v []float32) []float32 { // non-zero so that slot / gate swaps cannot hide
		for i := range v {
			if v[i] == 0 {
				v[i] = 0.25
			}
		}
		return v
	}
	if rapid.Bool().Draw(rt, "hasB") {
		c.Bias = nz(smallF32s(rt, 2*G*c.H, 1, "b"))
		for i := range c.Bias {
			c.Bias[i] /= 2
		}
	}
	if rapid.Bool().Draw(rt, "hasH0") {
		c.H0 = nz(smallF32s(rt, c.B*c.H, 1, "h0"))
	}
	c.lbr, c.inputForget = -1, -1
	if c.kind == "LSTM" {
		if rapid.Bool().Draw(rt, "hasC0") {
			c.C0 = nz(smallF32s(rt, c.B*c.H, 1, "c0"))
		}
		if rapid.Bool().Draw(rt, "hasP") {
			c.P = nz(smallF32s(rt, 3*c.H, 1, "p"))
			for i := range c.P {
				c.P[i] /= 2
			}
		}
		c.inputForget = rapid.SampledFrom([]int{-1, -1, 0, 1}).Draw(rt, "inputForget")
	}
	if c.kind == "GRU" {
		c.lbr = rapid.SampledFrom([]int{-1, 0, 1, 1}).Draw(rt, "lbr")
	}
	if rapid.IntRange(0, 2).Draw(rt, "actsGiven") == 0 {
		n := map[string]int{"RNN": 1, "GRU": 2, "LSTM": 3}[c.kind]
		for i := 0; i < n; i++ {
			c.acts = append(c.acts, rapid.SampledFrom([]string{"tanh", "sigmoid", "relu", "tanh", "sigmoid", "Tanh", "Sigmoid", "Relu", "HardSigmoid", "bogus"}).Draw(rt, "act"))
		}
	}
	c.dt = rapid.SampledFrom([]tensor.Dtype{tensor.Float32, tensor.Float32, tensor.Float32, tensor.Float32, tensor.Float64}).Draw(rt, "dtype")
	c.explicitNil = rapid.Bool().Draw(rt, "explicitNil")
	c.outNames = rapid.SampledFrom([]int{0, 0, 0, 1, 2, 3, 4}).Draw(rt, "outNames")
	c.attrRot = rapid.IntRange(0, 3).Draw(rt, "attrRot")
	if c.kind == "LSTM" && c.H0 != nil && c.C0 != nil && rapid.IntRange(0, 3).Draw(rt, "sameStateObject") == 0 {
		// one tensor object serves as initial_h and as initial_c (a graph may name one value twice)
		c.C0 = append([]float32{}, c.H0...)
		c.sameState = true
	}
	return c
}

func (c rnnCase) node() *onnx.NodeProto {
	attrs := []*onnx.AttributeProto{attrI("hidden_size", int64(c.H))}
	if c.lbr >= 0 {
		attrs = append(attrs, attrI("linear_before_reset", int64(c.lbr)))
	}
	if c.inputForget >= 0 {
		attrs = append(attrs, attrI("input_forget", int64(c.inputForget)))
	}
	if c.acts != nil {
		attrs = append(attrs, attrStrs("activations", c.acts...))
	}
	if n := len(attrs); n > 1 {
		// the order of the attributes of a node carries no meaning
		k := c.attrRot % n
		attrs = append(append([]*onnx.AttributeProto{}, attrs[k:]...), attrs[:k]...)
	}
	outs := []string{"Y", "Y_h"}
	if c.kind == "LSTM" {
		outs = append(outs, "Y_c")
	}
	// output names a graph may carry: the operator returns all of its results whatever the node
	// calls them, including results the graph leaves unnamed
	switch c.outNames {
	case 1:
		outs[len(outs)-1] = ""
	case 2:
		for i := 1; i < len(outs); i++ {
			outs[i] = ""
		}
	case 3:
		outs[0] = ""
	case 4:
		for i := range outs {
			outs[i] = fmt.Sprintf("result_%d", len(outs)-i)
		}
	}
	return mkNode(c.kind, nil, outs, attrs...)
}

func (c rnnCase) tensorOf(v []float32, shape ...int) tensor.Tensor {
	if v == nil {
		return nil
	}
	return toDtype(c.dt, shape, f32sTo64(v))
}

func (c rnnCase) inputs() []tensor.Tensor {
	G := c.gates()
	ins := []tensor.Tensor{
		c.tensorOf(c.X, c.S, c.B, c.I), c.tensorOf(c.W, 1, G*c.H, c.I), c.tensorOf(c.R, 1, G*c.H, c.H),
		c.tensorOf(c.Bias, 1, 2*G*c.H), nil, c.tensorOf(c.H0, 1, c.B, c.H),
	}
	if c.kind == "LSTM" {
		c0 := c.tensorOf(c.C0, 1, c.B, c.H)
		if c.sameState {
			c0 = ins[5]
		}
		ins = append(ins, c0, c.tensorOf(c.P, 1, 3*c.H))
	}
	if !c.explicitNil {
		for len(ins) > 3 && ins[len(ins)-1] == nil {
			ins = ins[:len(ins)-1]
		}
	}
	return ins
}

const c06Tol = 1e-4

func maxAbsDiff(got []float64, want []float64) float64 {
	if len(got) != len(want) {
		return math.Inf(1)
	}
	m := 0.0
	for i := range got {
		d := math.Abs(got[i] - want[i])
		if math.IsNaN(d) {
			return math.Inf(1)
		}
		m = math.Max(m, d)
	}
	return m
}

// c06Sensitivity estimates how strongly the recurrence amplifies rounding-level perturbations:
// the largest change of any output when every input value and weight is perturbed by one float32
// ulp (relative 2^-23, alternating sign). A long sequence through gates that are not contractions
// (tanh/relu as gate activation, a large hidden state) can amplify by many orders of magnitude;
// the comparison tolerance has to grow with it or the oracle would flag legitimate float32 rounding.
func c06Sensitivity(c rnnCase, inputForget bool, Y, Yh, Yc []float64) float64 {
	p := c
	perturb := func(v []float32) []float32 {
		if v == nil {
			return nil
		}
		out := make([]float32, len(v))
		for i, x := range v {
			f := float32(1 + 1.0/8388608)
			if i%2 == 1 {
				f = float32(1 - 1.0/8388608)
			}
			out[i] = x * f
		}
		return out
	}
	p.X, p.W, p.R, p.Bias, p.H0, p.C0, p.P = perturb(c.X), perturb(c.W), perturb(c.R), perturb(c.Bias), perturb(c.H0), perturb(c.C0), perturb(c.P)
	Y2, Yh2, Yc2, ok := refRecurrent(p, inputForget)
	if !ok {
		return 0
	}
	d := math.Max(maxAbsDiff(Y2, Y), math.Max(maxAbsDiff(Yh2, Yh), maxAbsDiff(Yc2, Yc)))
	if math.IsNaN(d) {
		return math.Inf(1)
	}
	return d
}

// c06Compare: do the outputs match the reference triple?
func c06Compare(c rnnCase, outs []tensor.Tensor, Y, Yh, Yc []float64) string {
	sens := c06Sensitivity(c, c.inputForget == 1, Y, Yh, Yc)
	want := [][]float64{Y, Yh, Yc}
	shapes := [][]int{{c.S, 1, c.B, c.H}, {1, c.B, c.H}, {1, c.B, c.H}}
	names := []string{"Y", "Y_h", "Y_c"}
	n := 2
	if c.kind == "LSTM" {
		n = 3
	}
	if len(outs) != n {
		return fmt.Sprintf("%d outputs, want %d", len(outs), n)
	}
	for i := 0; i < n; i++ {
		if outs[i] == nil {
			return names[i] + " is nil"
		}
		if !eqInts(outs[i].Shape(), shapes[i]) {
			return fmt.Sprintf("%s has shape %v, want %v", names[i], outs[i].Shape(), shapes[i])
		}
		if outs[i].Dtype() != c.dt {
			return fmt.Sprintf("%s has dtype %v, want %v", names[i], outs[i].Dtype(), c.dt)
		}
		// relative to the magnitude of the state: with relu as gate activation the recurrence is
		// unbounded and float32 rounding grows with it
		mag := 1.0
		for _, v := range want[i] {
			mag = math.Max(mag, math.Abs(v))
		}
		for _, w := range want {
			for _, v := range w {
				mag = math.Max(mag, math.Abs(v)) // any diverging output makes the whole case meaningless
			}
		}
		if mag > 1e4 || !(sens <= 1) {
			// a diverging recurrence (relu as gate activation lets the state grow geometrically):
			// rounding errors are amplified at the same rate and float32 eventually overflows, so
			// the values carry no information; shapes and types were checked above
			ev.Class("C06", "diverging-recurrence-values-not-compared")
			continue
		}
		tol := c06Tol*mag + 2000*sens
		if sens > 1e-5 {
			ev.Class("C06", "ill-conditioned-recurrence-wide-tolerance")
		}
		if d := maxAbsDiff(f64s(outs[i]), want[i]); d > tol {
			return fmt.Sprintf("%s differs from the ONNX recurrence by %g (tolerance %g, rounding sensitivity %g)", names[i], d, tol, sens)
		}
	}
	return ""
}

func c06Judge(c rnnCase, res opResult) string {
	if res.panicked {
		return "panic: " + fmt.Sprint(res.panicVal)
	}
	Y, Yh, Yc, modelled := refRecurrent(c, c.inputForget == 1)
	if !modelled {
		// an activation list the ONNX equations here do not cover must be refused, never ignored
		if res.err == nil {
			return "activation list " + fmt.Sprint(c.acts) + " is not implemented but was not refused"
		}
		return ""
	}
	if res.err != nil {
		if c.dt != tensor.Float32 {
			ev.Refused("C06-float64")
			return ""
		}
		if c.acts != nil {
			for _, a := range c.acts {
				if a != "tanh" && a != "sigmoid" && a != "relu" {
					ev.Refused("C06-activation-name")
					return "" // refused is one of the two allowed outcomes for an activation list
				}
			}
		}
		if c.inputForget == 1 || c.lbr == 1 {
			ev.Refused("C06-attribute")
			return ""
		}
		if (c.H == 1 || c.B*c.I == 1) && kfAccept("KF-C06-unit-size-refused") {
			return ""
		}
		return "valid float32 request refused: " + res.err.Error()
	}
	v := c06Compare(c, res.outs, Y, Yh, Yc)
	if v == "" {
		return ""
	}
	if c.inputForget == 1 {
		Y0, Yh0, Yc0, _ := refRecurrent(c, false)
		if c06Compare(c, res.outs, Y0, Yh0, Yc0) == "" {
			if kfAccept("KF-C06-input-forget-ignored") {
				return ""
			}
			return "input_forget=1 was ignored: the result equals the uncoupled recurrence (which differs from the coupled one by " + fmt.Sprint(maxAbsDiff(Y, Y0)) + ")"
		}
	}
	return v
}

// c06Split: processing X[:k] then X[k:] with the final state fed forward equals the whole run.
func c06Split(c rnnCase, whole []tensor.Tensor, k int) string {
	c1, c2 := c, c
	c1.S, c1.X = k, c.X[:k*c.B*c.I]
	c2.S, c2.X = c.S-k, c.X[k*c.B*c.I:]
	c1.explicitNil, c2.explicitNil = true, true
	r1 := runOp(c.kind, c1.node(), c1.inputs())
	if !r1.ok() {
		return fmt.Sprintf("first piece (%d steps) failed although the whole sequence was computed: %v", k, r1)
	}
	ins2 := c2.inputs()
	ins2[5] = cloneT(r1.outs[1])
	if c.kind == "LSTM" {
		ins2[6] = cloneT(r1.outs[2])
	}
	r2 := runOp(c.kind, c2.node(), ins2)
	if !r2.ok() {
		return fmt.Sprintf("second piece (%d steps, initial state = final state of the first) failed although the whole sequence was computed: %v", c.S-k, r2)
	}
	y := append(f64s(r1.outs[0]), f64s(r2.outs[0])...)
	mag := 1.0
	for _, w := range whole {
		for _, v := range f64s(w) {
			if math.IsNaN(v) {
				v = math.Inf(1)
			}
			mag = math.Max(mag, math.Abs(v))
		}
	}
	if !(mag <= 1e4) {
		return "" // diverging recurrence, see c06Compare
	}
	Yr, Yhr, Ycr, ok := refRecurrent(c, c.inputForget == 1)
	splitTol := 1e-6 * mag
	if ok {
		sens := c06Sensitivity(c, c.inputForget == 1, Yr, Yhr, Ycr)
		if !(sens <= 1) {
			return ""
		}
		splitTol += 2000 * sens
	}
	if d := maxAbsDiff(y, f64s(whole[0])); d > splitTol {
		return fmt.Sprintf("split at %d: concatenated Y differs from the whole-sequence Y by %g", k, d)
	}
	for i := 1; i < len(whole); i++ {
		if d := maxAbsDiff(f64s(r2.outs[i]), f64s(whole[i])); d > splitTol {
			return fmt.Sprintf("split at %d: final state %d differs from the whole-sequence one by %g", k, i, d)
		}
	}
	return ""
}

func TestC06(t *testing.T) {
	ev.Begin("C06",
		"rapid: RNN/GRU/LSTM with seq in 1..8, batch 1..4, input 1..4, hidden 1..5 (unit sizes down-weighted, not removed), every subset of {B, initial_h, initial_c, P} present / left out / explicitly nil with non-zero contents, activations absent or drawn from supported, ONNX-capitalised and unsupported names, linear_before_reset and input_forget absent/0/1, float32 (float64 as compute-or-refuse); for computed cases with seq >= 2 a drawn split point. "+
			"Non-trivial: seq >= 2 and at least one optional input present. Distinct = (kind, sizes, attributes, presence pattern, value bits).",
		"float64 reference of the ONNX equations (iofc / zrh packing, Wb then Rb, P=[i,o,f]), tolerance 1e-4 x max(1, largest |state|) (measured agreement 1.6e-7, DESIGN.md 1.6); split relation to 1e-6 on the same scale")
	defer reportKnownFindings("C06")

	check(t, "recurrent", 10000, 100000, func(rt *rapid.T) {
		c := genRnnCase(rt)
		node := c.node()
		res := runOp(c.kind, node, c.inputs())
		cls := []string{"kind-" + c.kind, "dtype-" + c.dt.String()}
		if c.S == 1 {
			cls = append(cls, "seq=1")
		}
		if c.B == 1 {
			cls = append(cls, "batch=1")
		}
		if c.H == 1 {
			cls = append(cls, "hidden=1")
		}
		if c.B*c.I == 1 {
			cls = append(cls, "batch*input=1")
		}
		if c.Bias == nil && c.H0 != nil {
			cls = append(cls, "B-absent-H0-present")
		}
		if c.lbr >= 0 {
			cls = append(cls, fmt.Sprintf("linear_before_reset=%d", c.lbr))
		}
		if c.inputForget >= 0 {
			cls = append(cls, fmt.Sprintf("input_forget=%d", c.inputForget))
		}
		if c.acts != nil {
			cls = append(cls, "activations-given")
		}
		if res.ok() {
			cls = append(cls, "computed")
		}
		anyOpt := c.Bias != nil || c.H0 != nil || c.C0 != nil || c.P != nil
		ev.Case("C06", c.String(), c.S >= 2 && anyOpt, cls...)
		if v := c06Judge(c, res); v != "" {
			rt.Fatalf("C06 violated by %v: %s\noutcome: %v", c, v, res)
		}
		if res.ok() && c.S >= 2 {
			k := rapid.IntRange(1, c.S-1).Draw(rt, "split")
			ev.Class("C06", "split-checked")
			if v := c06Split(c, res.outs, k); v != "" {
				rt.Fatalf("C06 violated by %v: %s", c, v)
			}
		}
		// a recurrent node of a Model is one operator instance serving Run after Run: after another
		// sequence of the same shape it must answer like a fresh instance
		if res.ok() && rapid.IntRange(0, 5).Draw(rt, "instanceServedAnotherSequence") == 0 {
			c1 := c
			c1.X = make([]float32, len(c.X))
			for i, v := range c.X {
				c1.X[i] = -v + 0.25
			}
			ev.Class("C06", "instance-reused-after-another-sequence")
			if d := reuseDifferential(c.kind, node, c1.inputs(), c.inputs()); d != "" {
				rt.Fatalf("C06 violated by %v after the same operator instance processed another sequence of the same shape: %s", c, d)
			}
		}
		if res.ok() && rapid.IntRange(0, 5).Draw(rt, "reuseWeightObjects") == 0 {
			// same weight tensor objects, new contents, fresh operator
			ins := c.inputs()
			first := runOp(c.kind, node, ins)
			c2 := c
			c2.W, c2.R = make([]float32, len(c.W)), make([]float32, len(c.R))
			for i, v := range c.W {
				c2.W[i] = -v + 0.125
			}
			for i, v := range c.R {
				c2.R[i] = -v - 0.125
			}
			n2 := c2.inputs()
			if tensor.Copy(ins[1], n2[1]) != nil || tensor.Copy(ins[2], n2[2]) != nil {
				rt.Fatalf("harness: cannot overwrite weight tensors in place")
			}
			second := runOp(c.kind, node, ins)
			ev.Class("C06", "weight-objects-reused-with-new-contents")
			if v := c06Judge(c, first); v != "" {
				rt.Fatalf("C06 violated by %v: %s", c, v)
			}
			if v := c06Judge(c2, second); v != "" {
				rt.Fatalf("C06 violated by %v when the weight tensor objects of a previous call are passed again with new contents: %s", c2, v)
			}
		}
		if rapid.IntRange(0, 4).Draw(rt, "modelLevel") == 0 {
			n := 2
			if c.kind == "LSTM" {
				n = 3
			}
			mres := runSingleNodeModel(node, c.inputs(), n)
			ev.Class("C06", "model-level")
			if d := agreeLevels(res, mres); d != "" {
				rt.Fatalf("C06 violated by %v: single-node model disagrees with operator API: %s", c, d)
			}
		}
	})
}

func init() {
	kfRepro["KF-C06-unit-size-refused"] = func() (bool, string) {
		c := rnnCase{kind: "GRU", S: 2, B: 2, I: 2, H: 1, dt: tensor.Float32, lbr: -1, inputForget: -1, explicitNil: true}
		c.X, c.W, c.R = make([]float32, 8), make([]float32, 6), make([]float32, 3)
		r := runOp("GRU", c.node(), c.inputs())
		return !r.ok(), "GRU with hidden_size=1 -> " + r.String()
	}
	kfRepro["KF-C06-input-forget-ignored"] = func() (bool, string) {
		c := rnnCase{kind: "LSTM", S: 2, B: 1, I: 2, H: 2, dt: tensor.Float32, lbr: -1, inputForget: 1, explicitNil: true}
		c.X = []float32{1, -1, 0.5, 2}
		c.W = []float32{0.5, -0.25, 0.25, 0.5, -0.5, 0.25, 0.125, 0.5, 0.5, 0.5, -0.25, 0.25, 0.25, -0.5, 0.5, 0.125}
		c.R = []float32{0.25, 0.5, -0.5, 0.25, 0.5, 0.125, 0.25, -0.25, 0.125, 0.25, 0.5, -0.5, -0.25, 0.5, 0.25, 0.125}
		c.C0 = []float32{0.75, -0.5}
		r := runOp("LSTM", c.node(), c.inputs())
		if !r.ok() {
			return false, "LSTM input_forget=1 -> " + r.String() + " (refused: allowed)"
		}
		Y, Yh, Yc, _ := refRecurrent(c, true)
		return c06Compare(c, r.outs, Y, Yh, Yc) != "", "LSTM with input_forget=1 returns the uncoupled result"
	}
}
