package harness

// C02 — Run is history-independent and never modifies caller tensors or weights.
// rapid state machine over one loaded Model; after every step the used model is compared bit for
// bit with a freshly loaded one, and deep snapshots of caller tensors, weights and previously
// returned outputs are compared with their state before the call.

import (
	"fmt"
	"os"
	"sort"
	"strings"
	"testing"

	"github.com/advancedclimatesystems/gonnx"
	"github.com/advancedclimatesystems/gonnx/onnx"
	"google.golang.org/protobuf/proto"
	"gorgonia.org/tensor"
	"pgregory.net/rapid"
)

type heldOutput struct {
	step int
	name string
	t    tensor.Tensor
	s    snapshot
}

type c02Machine struct {
	desc      string
	bytes     []byte
	m         *gonnx.Model
	params    map[string]snapshot
	mkFeed    func(rt *rapid.T, n int) gonnx.Tensors
	canBatch  bool
	baseN     int
	last      gonnx.Tensors
	lastOuts  gonnx.Tensors
	held      []heldOutput
	returned  map[tensor.Tensor]bool // every tensor object any Run has handed out (never trimmed)
	history   []string
	lastFail  bool
	flags     map[string]bool
	aliasable bool
	curN      int                      // batch size of the last call
	noisy     func(output string) bool // is this output downstream of an alignment-sensitive float kernel?
	depth     int
	batchAxis func(input string) (int, bool) // symbolic batch axis of a graph input
}

func snapTensors(ts gonnx.Tensors) map[string]snapshot {
	out := map[string]snapshot{}
	for k, t := range ts {
		if t != nil {
			out[k] = snap(t)
		}
	}
	return out
}

func sortedKeys(ts gonnx.Tensors) []string {
	var ks []string
	for k := range ts {
		ks = append(ks, k)
	}
	sort.Strings(ks)
	return ks
}

func newC02Machine(rt *rapid.T, desc string, b []byte, mk func(rt *rapid.T, n int) gonnx.Tensors, canBatch bool, baseN int, aliasable bool) *c02Machine {
	lr := loadBytes(b)
	if lr.panicked || lr.err != nil {
		rt.Fatalf("C02: model does not load: %v %v (%s)", lr.err, lr.panicVal, desc)
	}
	return &c02Machine{desc: desc, bytes: b, m: lr.m, params: snapTensors(gonnx.VerifParameters(lr.m)), mkFeed: mk,
		canBatch: canBatch, baseN: baseN, flags: map[string]bool{}, aliasable: aliasable, noisy: func(string) bool { return true }, depth: 20,
		batchAxis: func(string) (int, bool) { return 0, false }}
}

// step performs one Run on the used model and checks every invariant.
func (mc *c02Machine) step(rt *rapid.T, label string, feed gonnx.Tensors) {
	mc.history = append(mc.history, label)
	stepNo := len(mc.history)
	fail := func(format string, a ...any) {
		rt.Fatalf("C02 violated at step %d of history %v on model %s: %s", stepNo, mc.history, mc.desc, fmt.Sprintf(format, a...))
	}
	pre := snapTensors(feed)
	copies := gonnx.Tensors{}
	for k, t := range feed {
		copies[k] = cloneT(t)
	}
	rr := runModel(mc.m, feed)
	// (a) caller tensors untouched
	for _, k := range sortedKeys(feed) {
		if feed[k] == nil {
			continue
		}
		if d := pre[k].diff(snap(feed[k])); d != "" {
			fail("caller tensor %q was modified by Run: %s", k, d)
		}
	}
	// (b) weights untouched
	now := snapTensors(gonnx.VerifParameters(mc.m))
	var pk []string
	for k := range mc.params {
		pk = append(pk, k)
	}
	sort.Strings(pk)
	for _, k := range pk {
		if d := mc.params[k].diff(now[k]); d != "" {
			fail("weight %q was altered by Run: %s", k, d)
		}
	}
	// (c) same result as a freshly loaded model
	fl := loadBytes(mc.bytes)
	if fl.panicked || fl.err != nil {
		fail("the model bytes no longer load: %v %v", fl.err, fl.panicVal)
	}
	fr := runModel(fl.m, copies)
	// a Run that panics (operands of an input without declared shape that no operator can make
	// sense of) is a failed Run as far as this statement goes: what matters is that the used and
	// the fresh model agree, and that nothing was modified
	if rr.panicked != fr.panicked {
		fail("used model: %v; freshly loaded model on the same inputs: %v", rr, fr)
	}
	if rr.panicked {
		rr.err, fr.err = fmt.Errorf("panic: %v", rr.panicVal), fmt.Errorf("panic: %v", fr.panicVal)
		mc.flags["panicking-call"] = true
	}
	if (rr.err == nil) != (fr.err == nil) {
		fail("used model: %v; freshly loaded model on the same inputs: %v", rr, fr)
	}
	if rr.err == nil {
		if len(rr.outs) != len(fr.outs) {
			fail("used model returns %d outputs, fresh model %d", len(rr.outs), len(fr.outs))
		}
		for _, k := range sortedKeys(fr.outs) {
			if d := sameBits(rr.outs[k], fr.outs[k]); d != "" {
				// KF-C02-address-dependent-rounding: gonum's assembly dot-product kernels round
				// differently depending on the alignment of their operands, so two Runs on equal
				// inputs held in different tensor objects may differ in the last bits
				if mc.noisy(k) && approxSame(rr.outs[k], fr.outs[k], 1e-6*float64(mc.depth+1)) == "" && kfAccept("KF-C02-address-dependent-rounding") {
					continue
				}
				fail("output %q of the used model differs from the freshly loaded model: %s", k, d)
			}
		}
	}
	// (d) outputs handed out earlier are unchanged
	for _, h := range mc.held {
		if d := h.s.diff(snap(h.t)); d != "" {
			// an output that is the very object the caller passes in again is the caller's own business
			fail("output %q returned by step %d changed during a later Run: %s", h.name, h.step, d)
		}
	}
	if rr.err == nil {
		for _, k := range sortedKeys(rr.outs) {
			if t := rr.outs[k]; t != nil {
				mc.held = append(mc.held, heldOutput{stepNo, k, t, snap(t)})
				if mc.returned == nil {
					mc.returned = map[tensor.Tensor]bool{}
				}
				mc.returned[t] = true
			}
		}
		if len(mc.held) > 12 {
			mc.held = mc.held[len(mc.held)-12:]
		}
		mc.last, mc.lastOuts = feed, rr.outs
		if mc.lastFail {
			mc.flags["fail-then-good"] = true
		}
		mc.lastFail = false
	} else {
		mc.lastFail = true
		mc.flags["failing-call"] = true
	}
}

func (mc *c02Machine) actions(rt *rapid.T) map[string]func(*rapid.T) {
	return map[string]func(*rapid.T){
		"runFresh": func(rt *rapid.T) {
			mc.curN = mc.baseN
			mc.step(rt, "fresh", mc.mkFeed(rt, mc.baseN))
		},
		"runSameObjects": func(rt *rapid.T) {
			if mc.last == nil {
				rt.Skip("no previous call")
			}
			mc.flags["same-objects"] = true
			mc.step(rt, "same-objects", mc.last)
		},
		"runSameObjectsNewContents": func(rt *rapid.T) {
			if mc.last == nil {
				rt.Skip("no previous call")
			}
			// the caller owns its tensors: it refills the very objects of the previous call with
			// new values and passes them again
			for _, k := range sortedKeys(mc.last) {
				t := mc.last[k]
				// an output object that was fed back is not the caller's to refill: results may share
				// storage with the model (a Constant's value, a pass-through initializer), and what
				// a caller does to a returned tensor is outside the statement
				isOutput := mc.returned[t]
				if t == nil || isOutput || t.Dtype() != tensor.Float32 {
					continue
				}
				fresh := mkT(t.Shape(), smallF32s(rt, prod(t.Shape()), 2, "refill"))
				if err := tensor.Copy(t, fresh); err != nil {
					rt.Fatalf("harness: cannot refill a caller tensor in place: %v", err)
				}
			}
			mc.flags["same-objects-new-contents"] = true
			mc.step(rt, "same-objects-new-contents", mc.last)
		},
		"runFeedback": func(rt *rapid.T) {
			if mc.lastOuts == nil {
				rt.Skip("no previous outputs")
			}
			feed := mc.mkFeed(rt, mc.lastN())
			used := false
			for _, in := range sortedKeys(feed) {
				for _, on := range sortedKeys(mc.lastOuts) {
					o := mc.lastOuts[on]
					if o != nil && o.Dtype() == feed[in].Dtype() && eqInts(o.Shape(), feed[in].Shape()) && !used {
						feed[in] = o // the output object itself is passed back in
						used = true
					}
				}
			}
			if !used {
				rt.Skip("no output fits an input")
			}
			mc.flags["feedback"] = true
			mc.step(rt, "feedback", feed)
		},
		"runOtherBatch": func(rt *rapid.T) {
			if !mc.canBatch {
				rt.Skip("model has a fixed batch size")
			}
			n := rapid.SampledFrom([]int{1, 1, 2, 2, 3, 3, 4, 9, 17}).Draw(rt, "otherN")
			if n != mc.lastN() {
				mc.flags["batch-change"] = true
			}
			mc.curN = n
			mc.step(rt, fmt.Sprintf("batch=%d", n), mc.mkFeed(rt, n))
		},
		"runFailingInsideNode": func(rt *rapid.T) {
			// inputs that satisfy the declared signature (symbolic batch axis) but are inconsistent
			// with each other or with the weights, so that the call fails inside some node after
			// earlier nodes have already run
			feed := mc.mkFeed(rt, mc.lastN())
			ks := sortedKeys(feed)
			changed := false
			for _, k := range ks {
				ax, ok := mc.batchAxis(k)
				if !ok || !rapid.Bool().Draw(rt, "resize") {
					continue
				}
				s := cloneInts(feed[k].Shape())
				s[ax] = s[ax]%4 + 1 + rapid.IntRange(0, 1).Draw(rt, "by")
				feed[k] = mkT(s, smallF32s(rt, prod(s), 2, "inconsistent"))
				changed = true
			}
			if !changed {
				rt.Skip("nothing resized")
			}
			mc.step(rt, "inconsistent-batch", feed)
		},
		"runFailing": func(rt *rapid.T) {
			feed := mc.mkFeed(rt, mc.baseN)
			ks := sortedKeys(feed)
			if len(ks) == 0 {
				rt.Skip("the model has no inputs")
			}
			k := rapid.SampledFrom(ks).Draw(rt, "victim")
			if rapid.Bool().Draw(rt, "missing") {
				delete(feed, k)
				mc.step(rt, "missing-input", feed)
				return
			}
			s := append(cloneInts(feed[k].Shape()), 1)
			feed[k] = mkT(s, smallF32s(rt, prod(s), 1, "bad"))
			mc.step(rt, "wrong-rank", feed)
		},
	}
}

func (mc *c02Machine) lastN() int {
	if mc.curN == 0 {
		return mc.baseN
	}
	return mc.curN
}

func (mc *c02Machine) nontrivial() bool {
	if len(mc.history) < 2 || !mc.aliasable {
		return false
	}
	return mc.flags["same-objects"] || mc.flags["same-objects-new-contents"] || mc.flags["feedback"] || mc.flags["batch-change"] || mc.flags["fail-then-good"]
}

func (mc *c02Machine) record(sub string) {
	var cls []string
	for f := range mc.flags {
		cls = append(cls, f)
	}
	sort.Strings(cls)
	n := len(mc.history)
	bucket := "history-1"
	switch {
	case n >= 30:
		bucket = "history-30+"
	case n >= 10:
		bucket = "history-10..29"
	case n >= 5:
		bucket = "history-5..9"
	case n >= 2:
		bucket = "history-2..4"
	}
	cls = append(cls, bucket)
	if mc.aliasable {
		cls = append(cls, "model-with-alias-route")
	}
	ev.Case(sub, mc.desc+" :: "+strings.Join(mc.history, ","), mc.nontrivial(), cls...)
}

func ggAliasable(gg *ggraph) bool {
	for _, f := range []string{"conv-bias-initializer", "initial-state-initializer", "single-input-concat", "expand-same-shape", "constant", "op-ArgMax", "op-ReduceMax", "op-ReduceMin", "op-Conv", "op-LSTM", "op-GRU", "op-RNN"} {
		if gg.feats[f] > 0 {
			return true
		}
	}
	return false
}

func TestC02(t *testing.T) {
	ev.Begin("C02",
		"rapid state machine (t.Repeat) over one loaded Model. Models: generated DAGs of 1..6 nodes biased to the aliasing routes (a weight or caller tensor reaching Conv's bias, the initial state of RNN/GRU/LSTM, the operand of ArgMax/ReduceMax/ReduceMin, directly or through single-input Concat / same-shape Expand / Constant), half of them per-sample graphs whose batch size may change between calls; and the sample models gru, mlp, scaler, ndm. Actions: runFresh, runSameObjects (the very tensor objects of the previous call), runSameObjectsNewContents (those objects refilled in place with new values), runFeedback (an output object of the previous Run passed back in where shapes allow, e.g. hidden_out -> init_hidden), runOtherBatch, runFailing (missing input / wrong rank: refused by validation), runFailingInsideNode (inputs that satisfy the signature but are inconsistent with each other or the weights, so the call fails inside a node after earlier nodes ran). "+
			"Non-trivial = history of >= 2 calls containing same-object reuse, feedback, a batch change or a failing call followed by a good one, on a model with an alias route. Distinct = (model, action sequence).",
		"invariants after every step: deep snapshots (shape, strides, dtype, raw backing bits) of caller tensors and of the weights (hook VerifParameters) unchanged; outputs bit-identical to a freshly loaded model run on deep copies of the pre-call inputs, including 'both fail'; outputs returned earlier unchanged")
	defer reportKnownFindings("C02")

	check(t, "generated", 500, 3000, func(rt *rapid.T) {
		perSample := rapid.Bool().Draw(rt, "perSample")
		gg := genGraph(rt, ggOpts{maxNodes: 6, perSample: perSample, aliasRoutes: true, allOutputs: rapid.Bool().Draw(rt, "allOutputs")})
		mp := gg.model(rt)
		mc := newC02Machine(rt, gg.String(), marshalModel(mp), func(rt *rapid.T, n int) gonnx.Tensors {
			feed := gg.feed(rt, n)
			for name := range gg.shadowed {
				if rapid.Bool().Draw(rt, "supplyShadowed") {
					s := gg.initVals[name].Shape()
					feed[name] = mkT(s, smallF32s(rt, prod(s), 2, "override"))
				}
			}
			return feed
		}, perSample, gg.batchN, ggAliasable(gg))
		noisyOut := map[string]bool{}
		for _, v := range gg.pool {
			noisyOut[v.name] = v.noisy
		}
		mc.noisy, mc.depth = func(k string) bool { return noisyOut[k] }, len(gg.nodes)
		inAxis := map[string]int{}
		for _, in := range gg.inputs {
			inAxis[in.name] = in.batch
		}
		mc.batchAxis = func(k string) (int, bool) { a, ok := inAxis[k]; return a, ok && a >= 0 }
		mc.step(rt, "first", mc.mkFeed(rt, gg.batchN))
		rt.Repeat(mc.actions(rt))
		mc.record("generated")
	})

	check(t, "operands-as-inputs", 150, 800, c02OperandsAsInputs)

	check(t, "sample-models", 150, 800, func(rt *rapid.T) {
		sms := sampleModels()
		names := []string{"gru", "gru", "mlp", "scaler"}
		if rapid.IntRange(0, 9).Draw(rt, "ndm") == 0 {
			names = []string{"ndm"}
		}
		sm := sms[rapid.SampledFrom(names).Draw(rt, "model")]
		if sm == nil {
			rt.Skip("sample model not available")
		}
		mc := newC02Machine(rt, "sample:"+sm.name, sm.bytes, func(rt *rapid.T, n int) gonnx.Tensors {
			return sm.feed(rt, n, rapid.IntRange(1, 4).Draw(rt, "seq"))
		}, true, rapid.IntRange(1, 3).Draw(rt, "baseN"), true)
		mc.batchAxis = func(k string) (int, bool) { a := sm.batchAxis(k); return a, a >= 0 }
		mc.step(rt, "first", mc.mkFeed(rt, mc.baseN))
		rt.Repeat(mc.actions(rt))
		mc.record("sample-models")
	})
}

func init() {
	kfRepro["KF-C02-address-dependent-rounding"] = addressDependentRounding
}

// addressDependentRounding evaluates Tanh -> LinearRegressor (5 features) repeatedly on equal
// inputs held in freshly allocated tensors; reports whether more than one result occurs.
func addressDependentRounding() (bool, string) {
	x := []float32{-0.25, 0.3125, 1, -1.5, 0.5, 0.125, 0.25, 0.375, 0.4375, 0.5, -2, 1.75, 0.0625, -0.5625, 1.25}
	seen := map[uint64]int{}
	var keep [][]byte
	for i := 0; i < 400; i++ {
		keep = append(keep, make([]byte, 1+i%37))
		tn := runOp("Tanh", mkNode("Tanh", nil, nil), []tensor.Tensor{mkT([]int{3, 5}, x)})
		node := mkNode("LinearRegressor", nil, nil, attrFs("coefficients", 0.1875, -0.25, -0.125, 0.1875, -0.5), attrFs("intercepts", 0.125), attrI("targets", 1))
		r := runOp("LinearRegressor", node, []tensor.Tensor{cloneT(tn.outs[0])})
		if !r.ok() {
			return true, r.String()
		}
		seen[hashBits(bitsAll(r.outs[0]))]++
	}
	_ = keep
	return len(seen) > 1, fmt.Sprintf("LinearRegressor(5 features) on equal inputs in 400 freshly allocated tensors: %d distinct results", len(seen))
}

// ---- operands as graph inputs ----

// operandNode is one operator application produced by the operator-level generators of C03-C06;
// in the "operands-as-inputs" sub-check every operand, including what a real model would hold as
// weights, is a graph input of the model, so that the caller owns (and may refill) all of them.
type operandNode struct {
	node *onnx.NodeProto
	ins  []tensor.Tensor
	nOut int
	tags []string // classes for the evidence
}

func genBigDot(rt *rapid.T) operandNode {
	m := rapid.IntRange(1, 6).Draw(rt, "m")
	k := rapid.SampledFrom([]int{8, 16, 32, 33, 40, 64}).Draw(rt, "k")
	n := rapid.SampledFrom([]int{16, 32, 33, 64, 70, 130}).Draw(rt, "n")
	if rapid.IntRange(0, 2).Draw(rt, "matmul") == 0 {
		batch := rapid.SampledFrom([]int{0, 0, 2, 3}).Draw(rt, "stack")
		sa, sb := []int{m, k}, []int{k, n}
		if batch > 0 {
			sa = []int{batch, m, k}
		}
		return operandNode{mkNode("MatMul", nil, nil), []tensor.Tensor{mkT(sa, smallF32s(rt, prod(sa), 2, "a")), mkT(sb, smallF32s(rt, prod(sb), 2, "b"))}, 1, []string{"big-dot"}}
	}
	transA, transB := rapid.IntRange(0, 1).Draw(rt, "transA"), rapid.IntRange(0, 1).Draw(rt, "transB")
	var attrs []*onnx.AttributeProto
	if transA == 1 || rapid.Bool().Draw(rt, "transAGiven") {
		attrs = append(attrs, attrI("transA", int64(transA)))
	}
	if transB == 1 || rapid.Bool().Draw(rt, "transBGiven") {
		attrs = append(attrs, attrI("transB", int64(transB)))
	}
	if a := rapid.SampledFrom([]float32{0, 0, 0.5, 2}).Draw(rt, "alpha"); a != 0 {
		attrs = append(attrs, attrF("alpha", a))
	}
	if b := rapid.SampledFrom([]float32{0, 0, 0.5, -1}).Draw(rt, "beta"); b != 0 {
		attrs = append(attrs, attrF("beta", b))
	}
	sa, sb := []int{m, k}, []int{k, n}
	if transA == 1 {
		sa = []int{k, m}
	}
	if transB == 1 {
		sb = []int{n, k}
	}
	ins := []tensor.Tensor{mkT(sa, smallF32s(rt, prod(sa), 2, "a")), mkT(sb, smallF32s(rt, prod(sb), 2, "b"))}
	if sc := rapid.SampledFrom([][]int{nil, {n}, {m, n}, {1, n}, {m, 1}, {}}).Draw(rt, "cShape"); sc != nil {
		ins = append(ins, mkT(sc, smallF32s(rt, prod(sc), 2, "c")))
	}
	return operandNode{mkNode("Gemm", nil, nil, attrs...), ins, 1, []string{"big-dot"}}
}

func genOperandNode(rt *rapid.T) operandNode {
	fam := os.Getenv("VERIF_OPERAND_FAMILY") // development aid: restrict the sub-check to one family
	switch rapid.SampledFrom([]string{"conv", "conv", "conv", "bigdot", "bigdot", "dot", "rnn", "binary", "shape", "move", "reduce", "unary", "unary", "constcast"}).Filter(func(f string) bool { return fam == "" || f == fam }).Draw(rt, "family") {
	case "shape":
		c := c07Gen(rt)
		return operandNode{c.node, c.inputs(), 1, nil}
	case "move":
		c := c08Gen(rt)
		return operandNode{c.node, c.inputs(), 1, nil}
	case "reduce":
		c := c09Gen(rt)
		return operandNode{c.node, []tensor.Tensor{cloneT(c.x)}, 1, nil}
	case "unary":
		c := c10Gen(rt)
		ins := []tensor.Tensor{cloneT(c.x)}
		if c.op == "PRelu" {
			ins = append(ins, cloneT(c.slope))
		}
		return operandNode{mkNode(c.op, nil, nil), ins, 1, nil}
	case "constcast":
		c := c11Gen(rt)
		return operandNode{c.node, cloneTs(c.ins), 1, nil}
	case "conv":
		g := genConvGeom(rt)
		if g.group == 2 {
			g.group = 1
		}
		if rapid.IntRange(0, 2).Draw(rt, "bigOperand") > 0 {
			// an input of at least 4 096 elements: scale the batch (and, for tiny images, the channels)
			for g.c*prod(g.in) < 48 {
				g.c++
			}
			per := g.c * prod(g.in)
			target := rapid.SampledFrom([]int{4096, 4096, 8200, 16400}).Draw(rt, "bigTarget") // different sizes, so that one node's buffers can hold another's
			g.n = (target+per-1)/per + rapid.IntRange(0, 2).Draw(rt, "extraN")
		}
		x := mkT(append([]int{g.n, g.c}, g.in...), smallF32s(rt, g.n*g.c*prod(g.in), 2, "x"))
		w := mkT(append([]int{g.m, g.c}, g.k...), smallF32s(rt, g.m*g.c*prod(g.k), 1, "w"))
		ins := []tensor.Tensor{x, w}
		if g.hasBias {
			ins = append(ins, mkT([]int{g.m}, smallF32s(rt, g.m, 2, "b")))
		}
		tag := "conv-small"
		if prod(x.Shape()) >= 4096 {
			tag = "conv-big-padded"
			padded := g.autoPad == "SAME_UPPER" || g.autoPad == "SAME_LOWER" || g.autoPad == "VALID"
			for a := range g.in {
				padded = padded || g.padLo[a] != 0 || g.padHi[a] != 0
			}
			if !padded {
				tag = "conv-big-unpadded"
			}
		}
		return operandNode{g.node(), ins, 1, []string{tag}}
	case "bigdot":
		return genBigDot(rt)
	case "dot":
		c := c04Gen(rt)
		return operandNode{c.node, c.ins, 1, nil}
	case "rnn":
		c := genRnnCase(rt)
		return operandNode{c.node(), c.inputs(), len(c.node().Output), nil}
	default:
		c := c03Gen(rt)
		b := c.b
		if c.same {
			b = cloneT(c.a)
		}
		return operandNode{mkNode(c.op, nil, nil), []tensor.Tensor{c.a, b}, 1, nil}
	}
}

// operandModel assembles the nodes into one model; returns its bytes, a description and the
// prototype feed (name -> tensor of the generated case).
func operandModel(nodes []operandNode) ([]byte, string, gonnx.Tensors, bool) {
	g := &onnx.GraphProto{}
	proto0 := gonnx.Tensors{}
	desc := ""
	for i, on := range nodes {
		n := proto.Clone(on.node).(*onnx.NodeProto)
		n.Input, n.Output = nil, nil
		for j, t := range on.ins {
			if t == nil {
				n.Input = append(n.Input, "")
				continue
			}
			if _, ok := onnxTypeOf[t.Dtype()]; !ok {
				return nil, "", nil, false
			}
			name := fmt.Sprintf("n%d_in%d", i, j)
			n.Input = append(n.Input, name)
			g.Input = append(g.Input, valueInfoFor(name, t))
			proto0[name] = t
		}
		for j := 0; j < on.nOut; j++ {
			name := fmt.Sprintf("n%d_out%d", i, j)
			n.Output = append(n.Output, name)
			g.Output = append(g.Output, valueInfoNoShape(name))
		}
		g.Node = append(g.Node, n)
		desc += descNode(n)
		for _, t := range on.ins {
			if t == nil {
				desc += " nil"
			} else {
				desc += fmt.Sprintf(" %v%v", t.Dtype(), t.Shape())
			}
		}
		desc += "; "
	}
	return marshalModel(mkModel(g, 13)), desc, proto0, true
}

func c02OperandsAsInputs(rt *rapid.T) {
	var nodes []operandNode
	for i, n := 0, rapid.IntRange(1, 3).Draw(rt, "nOperandNodes"); i < n; i++ {
		nodes = append(nodes, genOperandNode(rt))
	}
	b, desc, proto0, ok := operandModel(nodes)
	if !ok {
		rt.Skip("an operand type has no ONNX encoding")
	}
	if lr := loadBytes(b); lr.err != nil || lr.panicked {
		rt.Skip("model refused at load") // e.g. an attribute combination the operator refuses in Init is a Run error, not a load error; nothing to do here
	}
	names := sortedKeys(proto0)
	first := true
	mc := newC02Machine(rt, "operands:"+desc, b, func(rt *rapid.T, n int) gonnx.Tensors {
		feed := gonnx.Tensors{}
		for _, k := range names {
			t := proto0[k]
			if first || t.Dtype() != tensor.Float32 {
				feed[k] = cloneT(t)
			} else {
				feed[k] = mkT(t.Shape(), smallF32s(rt, prod(t.Shape()), 2, "again"))
			}
		}
		first = false
		return feed
	}, false, 1, true)
	mc.depth = 3
	seen := map[string]bool{}
	for _, on := range nodes {
		for _, tg := range on.tags {
			mc.flags[tg], seen[tg] = true, true
		}
	}
	if seen["conv-big-unpadded"] && seen["conv-big-padded"] {
		mc.flags["conv-big-unpadded-and-padded"] = true
	}
	mc.step(rt, "first", mc.mkFeed(rt, 1))
	rt.Repeat(mc.actions(rt))
	mc.record("operands-as-inputs")
}
