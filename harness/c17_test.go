package harness

// C17 — A loaded Model can be run from many goroutines at once.
// The binary for this property is built with -race (driver): any unsynchronised conflicting access
// that occurs in an explored workload makes the race detector abort the process (GORACE
// halt_on_error=1), and every goroutine's outputs are compared bit for bit with a sequential
// baseline computed on a fresh model.

import (
	"encoding/base64"
	"encoding/json"
	"fmt"
	"os"
	"path/filepath"
	"sort"
	"sync"
	"testing"

	"github.com/advancedclimatesystems/gonnx"
	"github.com/advancedclimatesystems/gonnx/onnx"
	"gorgonia.org/tensor"
	"pgregory.net/rapid"
)

type c17Tensor struct {
	Name  string    `json:"name"`
	Shape []int     `json:"shape"`
	Data  []float32 `json:"data"`
}

type c17Workload struct {
	Desc    string          `json:"desc"`
	Model   string          `json:"model_b64"`
	Feeds   [][][]c17Tensor `json:"feeds"` // goroutine -> call -> tensors
	Loaders int             `json:"loaders"`
	// FailuresFirst: before the concurrent phase the process sees Runs that fail (another model
	// with an unknown operator, the shared model without its inputs)
	FailuresFirst bool `json:"failures_first,omitempty"`
}

// failingRuns performs Runs that must fail, on another model and on m.
func failingRuns(m *gonnx.Model) string {
	g := &onnx.GraphProto{Input: []*onnx.ValueInfoProto{valueInfo("x", 1, 2)}, Output: []*onnx.ValueInfoProto{valueInfoNoShape("y")},
		Node: []*onnx.NodeProto{mkNode("NoSuchOperator", []string{"x"}, []string{"y"})}}
	lr := loadBytes(marshalModel(mkModel(g, 13)))
	if lr.err == nil && !lr.panicked {
		for i := 0; i < 2; i++ {
			if r := runModel(lr.m, gonnx.Tensors{"x": mkT([]int{2}, []float32{1, 2})}); r.err == nil && !r.panicked {
				return "a model with an unknown operator was executed"
			}
		}
	}
	_ = runModel(m, gonnx.Tensors{})
	return ""
}

func encodeFeed(f gonnx.Tensors) []c17Tensor {
	var out []c17Tensor
	for _, k := range sortedKeys(f) {
		v := f64s(f[k])
		d := make([]float32, len(v))
		for i := range v {
			d[i] = float32(v[i])
		}
		out = append(out, c17Tensor{k, cloneInts(f[k].Shape()), d})
	}
	return out
}

func decodeFeed(ts []c17Tensor) gonnx.Tensors {
	out := gonnx.Tensors{}
	for _, t := range ts {
		out[t.Name] = mkT(t.Shape, t.Data)
	}
	return out
}

// runWorkload executes one workload; returns a violation text or "".
func runWorkload(w c17Workload) string {
	b, err := base64.StdEncoding.DecodeString(w.Model)
	if err != nil {
		return "harness: bad model encoding"
	}
	// The concurrent phase comes first and the sequential baseline after it: whatever the library
	// initialises lazily (per process, per model) is then first touched by overlapping Runs.
	shared := loadBytes(b)
	if shared.err != nil || shared.panicked {
		return fmt.Sprintf("model does not load: %v %v", shared.err, shared.panicVal)
	}
	if w.FailuresFirst {
		if v := failingRuns(shared.m); v != "" {
			return v
		}
	}
	before := snapTensors(gonnx.VerifParameters(shared.m))
	got := make([][]runResult, len(w.Feeds))
	feeds := make([][]gonnx.Tensors, len(w.Feeds))
	for g := range w.Feeds {
		for _, f := range w.Feeds[g] {
			feeds[g] = append(feeds[g], decodeFeed(f)) // every goroutine owns its input tensors
		}
		got[g] = make([]runResult, len(w.Feeds[g]))
	}
	var start, done sync.WaitGroup
	start.Add(1)
	for g := range w.Feeds {
		done.Add(1)
		go func(g int) {
			defer done.Done()
			start.Wait()
			for i, f := range feeds[g] {
				got[g][i] = runModel(shared.m, f)
			}
		}(g)
	}
	loadErrs := make([]string, w.Loaders)
	for l := 0; l < w.Loaders; l++ {
		done.Add(1)
		go func(l int) {
			defer done.Done()
			start.Wait()
			for i := 0; i < 3; i++ {
				lr := loadBytes(b)
				if lr.err != nil || lr.panicked {
					loadErrs[l] = fmt.Sprintf("concurrent load failed: %v %v", lr.err, lr.panicVal)
					return
				}
			}
		}(l)
	}
	start.Done()
	done.Wait()
	for _, e := range loadErrs {
		if e != "" {
			return e
		}
	}
	// sequential baseline on a fresh model ("what it returns when executed alone")
	base := loadBytes(b)
	if base.err != nil || base.panicked {
		return fmt.Sprintf("model does not load a second time: %v %v", base.err, base.panicVal)
	}
	want := make([][]runResult, len(w.Feeds))
	for g := range w.Feeds {
		for _, f := range w.Feeds[g] {
			want[g] = append(want[g], runModel(base.m, decodeFeed(f)))
		}
	}
	for g := range got {
		for i := range got[g] {
			a, b := got[g][i], want[g][i]
			if a.panicked {
				return fmt.Sprintf("goroutine %d call %d panics: %v", g, i, a.panicVal)
			}
			if (a.err == nil) != (b.err == nil) {
				return fmt.Sprintf("goroutine %d call %d: concurrent %v, alone %v", g, i, a, b)
			}
			if a.err != nil {
				continue
			}
			for _, k := range sortedKeys(b.outs) {
				if d := sameBits(a.outs[k], b.outs[k]); d != "" {
					// KF-C17-address-dependent-rounding (same root cause as KF-C02-...): float results of
					// the assembly dot-product kernels depend on operand alignment at the last bits
					if approxSame(a.outs[k], b.outs[k], 2e-5) == "" && isFloat(a.outs[k].Dtype()) && kfAccept("KF-C17-address-dependent-rounding") {
						continue
					}
					return fmt.Sprintf("goroutine %d call %d: output %q differs from what the call returns when executed alone: %s", g, i, k, d)
				}
			}
		}
	}
	after := snapTensors(gonnx.VerifParameters(shared.m))
	for k, s := range before {
		if d := s.diff(after[k]); d != "" {
			return fmt.Sprintf("weight %q changed during the concurrent Runs: %s", k, d)
		}
	}
	return ""
}

func TestC17(t *testing.T) {
	ev.Begin("C17",
		"rapid: workloads = (model, G in 2..16 goroutines each with its own sequence of 1..4 input sets of its own tensor objects, started behind a barrier, optionally 1..2 goroutines loading further models concurrently). Models: the sample models gru, mlp, scaler (ndm rarely) and generated models of 1..6 nodes biased to weight-reading operators (Conv with bias, Gemm, MatMul, RNN/GRU/LSTM with weight initial states, Scaler, LinearRegressor, Constant, Gather with weight indices). "+
			"Non-trivial = >= 2 goroutines each performing >= 2 Runs on a model with a weight-reading operator. Distinct = (model, inputs, G).",
		"binary built with -race; GORACE=halt_on_error=1: a reported race aborts the run (the driver maps it to a violation and saves the workload that was executing); outputs compared bit for bit with a sequential baseline; no schedule enumeration (DESIGN.md section 4)")
	defer reportKnownFindings("C17")
	failDir := os.Getenv("VERIF_FAIL_DIR")

	if p := os.Getenv("VERIF_REPLAY_CASE"); p != "" {
		b, err := os.ReadFile(p)
		if err != nil {
			t.Fatalf("VERIF-INCONCLUSIVE cannot read replay case: %v", err)
		}
		var w c17Workload
		if err := json.Unmarshal(b, &w); err != nil {
			t.Fatalf("VERIF-INCONCLUSIVE bad replay case: %v", err)
		}
		for i := 0; i < 25; i++ {
			ev.Case("replay", w.Desc+fmt.Sprint(i), true)
			if v := runWorkload(w); v != "" {
				t.Fatalf("C17 violated by workload %s: %s", w.Desc, v)
			}
		}
		return
	}

	check(t, "workloads", 120, 400, func(rt *rapid.T) {
		var w c17Workload
		var mk func(rt *rapid.T) gonnx.Tensors
		var opClasses []string
		weighted := true
		if rapid.IntRange(0, 2).Draw(rt, "sample") == 0 {
			sms := sampleModels()
			names := []string{"gru", "gru", "mlp", "scaler"}
			if rapid.IntRange(0, 29).Draw(rt, "ndm") == 0 {
				names = []string{"ndm"}
			}
			sm := sms[rapid.SampledFrom(names).Draw(rt, "model")]
			if sm == nil {
				rt.Skip("sample model not available")
			}
			w.Desc = "sample:" + sm.name
			w.Model = base64.StdEncoding.EncodeToString(sm.bytes)
			mk = func(rt *rapid.T) gonnx.Tensors {
				return sm.feed(rt, rapid.IntRange(1, 3).Draw(rt, "N"), rapid.IntRange(1, 3).Draw(rt, "seq"))
			}
		} else {
			maxNodes := 6
			if rapid.IntRange(0, 9).Draw(rt, "bigGraph") == 0 {
				maxNodes = rapid.SampledFrom([]int{45, 45, 90}).Draw(rt, "bigGraphNodes") // the sample models have at most 20 nodes
			}
			gg := genGraph(rt, ggOpts{maxNodes: maxNodes, aliasRoutes: rapid.Bool().Draw(rt, "aliasRoutes"), weightOps: true, allOutputs: rapid.Bool().Draw(rt, "allOutputs")})
			if len(gg.nodes) >= 32 {
				opClasses = append(opClasses, "graph>=32-nodes")
			}
			if len(gg.nodes) >= 64 {
				opClasses = append(opClasses, "graph>=64-nodes")
			}
			w.Desc = gg.String()
			w.Model = base64.StdEncoding.EncodeToString(marshalModel(gg.model(rt)))
			weighted = gg.weighted
			for f := range gg.feats {
				if len(f) > 3 && f[:3] == "op-" || f == "gemm-transA-weight" || f == "conv-bias-initializer" || f == "initial-state-initializer" || f == "constant" {
					opClasses = append(opClasses, f)
				}
			}
			sort.Strings(opClasses)
			mk = func(rt *rapid.T) gonnx.Tensors { return gg.feed(rt, gg.batchN) }
		}
		G := rapid.SampledFrom([]int{2, 2, 3, 4, 4, 8, 8, 16}).Draw(rt, "goroutines")
		multi := 0
		for g := 0; g < G; g++ {
			calls := rapid.SampledFrom([]int{1, 2, 2, 3, 3, 4}).Draw(rt, "calls")
			if calls >= 2 {
				multi++
			}
			var fs [][]c17Tensor
			for i := 0; i < calls; i++ {
				fs = append(fs, encodeFeed(mk(rt)))
			}
			w.Feeds = append(w.Feeds, fs)
		}
		w.Loaders = rapid.SampledFrom([]int{0, 0, 1, 2}).Draw(rt, "loaders")
		w.FailuresFirst = rapid.IntRange(0, 3).Draw(rt, "failuresFirst") == 0
		if failDir != "" {
			// keep the workload that is about to run: if the race detector aborts the process this
			// file is the replay case
			b, _ := json.Marshal(w)
			_ = os.WriteFile(filepath.Join(failDir, "C17-last-workload.json"), b, 0o644)
		}
		cls := append([]string{fmt.Sprintf("G=%d", G), fmt.Sprintf("loaders=%d", w.Loaders)}, opClasses...)
		ev.Case("workloads", fmt.Sprintf("%s G=%d loaders=%d #%x", w.Desc, G, w.Loaders, hash64(fmt.Sprint(w.Feeds))), multi >= 2 && weighted, cls...)
		if v := runWorkload(w); v != "" {
			rt.Fatalf("C17 violated by workload %s (G=%d): %s", w.Desc, G, v)
		}
	})
	if failDir != "" {
		_ = os.Remove(filepath.Join(failDir, "C17-last-workload.json"))
	}
}

var _ = tensor.Float32

func init() { kfRepro["KF-C17-address-dependent-rounding"] = addressDependentRounding }
