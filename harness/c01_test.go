package harness

// C01 — Run computes the dataflow composition of the graph, returning every output.
// Differential: gonnx.Model.Run on the marshalled model versus an independent evaluator that walks
// the node list with its own environment, a fresh operator per node, deep copies of every input and
// positional output binding. The evaluator shares gonnx's operator kernels on purpose (C01 is about
// composition; kernels are C03-C11) but none of model.go.

import (
	"fmt"
	"sort"
	"testing"

	"github.com/advancedclimatesystems/gonnx"
	"github.com/advancedclimatesystems/gonnx/onnx"
	"github.com/advancedclimatesystems/gonnx/ops/opset13"
	"google.golang.org/protobuf/proto"
	"gorgonia.org/tensor"
	"pgregory.net/rapid"
)

type evalResult struct {
	env      map[string]tensor.Tensor
	err      error
	failedAt string
	short    bool // some node listed fewer outputs than its operator returned
}

// evalGraph is the reference evaluator. inits are the harness's own initializer values.
func evalGraph(g *onnx.GraphProto, inits map[string]tensor.Tensor, feed gonnx.Tensors) (res evalResult) {
	defer func() {
		if r := recover(); r != nil {
			res.err = fmt.Errorf("PANIC in operator: %v", r)
		}
	}()
	env := map[string]tensor.Tensor{}
	for k, v := range inits {
		env[k] = cloneT(v)
	}
	declared := map[string]bool{}
	for _, in := range g.Input {
		declared[in.Name] = true
	}
	for k, v := range feed {
		if declared[k] {
			env[k] = cloneT(v) // a supplied graph input overrides an initializer default
		}
	}
	res.env = env
	docNames := []string{"Y", "Y_h", "Y_c"}
	for _, n := range g.Node {
		res.failedAt = n.OpType
		op, err := opset13.GetOperator(n.OpType)
		if err != nil {
			res.err = err
			return
		}
		// canonical twin of the node: same attributes and arity, documented output names
		n2 := proto.Clone(n).(*onnx.NodeProto)
		for i := range n2.Output {
			if i < len(docNames) {
				n2.Output[i] = docNames[i]
			}
		}
		if err = op.Init(n2); err != nil {
			res.err = err
			return
		}
		var ins []tensor.Tensor
		for _, name := range n.Input {
			if name == "" {
				ins = append(ins, nil)
				continue
			}
			t, ok := env[name]
			if !ok {
				res.err = fmt.Errorf("no value named %q", name)
				return
			}
			ins = append(ins, cloneT(t))
		}
		if ins, err = op.ValidateInputs(ins); err != nil {
			res.err = err
			return
		}
		outs, err := op.Apply(ins)
		if err != nil {
			res.err = err
			return
		}
		if len(outs) < len(n.Output) {
			res.err = fmt.Errorf("%s returned %d results for %d output names", n.OpType, len(outs), len(n.Output))
			return
		}
		if len(outs) > len(n.Output) {
			res.short = true
		}
		for i, name := range n.Output {
			if name != "" {
				env[name] = cloneT(outs[i])
			}
		}
	}
	res.failedAt = ""
	return
}

func c01Nontrivial(gg *ggraph) bool {
	if len(gg.nodes) < 3 {
		return false
	}
	for _, f := range []string{"fan-out", "repeated-op-type-different-attributes", "multi-output-non-doc-names", "skipped-optional-input", "initializer-as-input"} {
		if gg.feats[f] > 0 {
			return true
		}
	}
	return false
}

func TestC01(t *testing.T) {
	ev.Begin("C01",
		"rapid: well-formed DAG programs of 1..12 nodes built from a typed value pool over 1..3 graph inputs (rank-2, NCHW, NCL and sequence inputs) and generated initializers, using elementwise/comparison/logic operators, Gemm, MatMul, Flatten, Reshape, Transpose, Squeeze/Unsqueeze, Concat (also single-input), Softmax, ReduceMax/Min, ArgMax, Gather, Shape, Cast, Constant, ConstantOfShape, Conv, RNN/GRU/LSTM, Expand, PRelu, Scaler, LinearRegressor; forced features: fan-out, fan-in, repeated operator types with different attributes, optional inputs skipped as \"\", multi-output nodes with arbitrary / permuted documented output names, omitted trailing and skipped outputs, an initializer that is also a graph input (supplied by the caller or not), nodes emitted in a drawn topological order; every intermediate value is declared as graph output. "+
			"Non-trivial = >= 3 nodes and at least one of {fan-out, repeated op type with different attributes, multi-output node with non-documented names, skipped optional input, initializer-as-input}. Distinct = (inputs, node list with attributes and wiring).",
		"oracle: independent evaluator (own environment, fresh operator per node, deep-copied inputs, positional binding) sharing gonnx's operator kernels but none of model.go; integer/bool results compared exactly, float results up to rounding (1e-5 relative per node: the assembly dot-product kernels round differently depending on operand alignment); discontinuous operators are only applied to values not downstream of such kernels")
	defer reportKnownFindings("C01")

	check(t, "graphs", 12000, 150000, func(rt *rapid.T) {
		gg := genGraph(rt, ggOpts{maxNodes: 12, allOutputs: true})
		mp := gg.model(rt)
		feed := gg.feed(rt, gg.batchN)
		overridden := false
		for name := range gg.shadowed {
			if rapid.Bool().Draw(rt, "supplyShadowed") {
				s := gg.initVals[name].Shape()
				feed[name] = mkT(s, smallF32s(rt, prod(s), 2, "override"))
				overridden = true
			}
		}
		cls := gg.featureList()
		if overridden {
			cls = append(cls, "initializer-overridden-by-caller")
		}
		if rapid.IntRange(0, 3).Draw(rt, "strayEntries") == 0 {
			// the caller's map may hold entries that name no graph input: a weight of the model, an
			// intermediate value, something unrelated. The values of a node's inputs are the graph
			// inputs, initializers and earlier results - such entries change nothing.
			var cands []gv
			for _, v := range gg.pool {
				isInput := gg.shadowed[v.name]
				for _, in := range gg.inputs {
					isInput = isInput || in.name == v.name
				}
				if !isInput && v.name != "" {
					cands = append(cands, v)
				}
			}
			var initNames []string
			for name := range gg.initVals {
				if !gg.shadowed[name] {
					initNames = append(initNames, name)
				}
			}
			sort.Strings(initNames)
			for _, name := range initNames {
				t := gg.initVals[name]
				cands = append(cands, gv{name: name, shape: cloneInts(t.Shape()), dt: t.Dtype(), init: true})
			}
			for k := rapid.IntRange(1, 3).Draw(rt, "nStray"); k > 0 && len(cands) > 0; k-- {
				v := rapid.SampledFrom(cands).Draw(rt, "strayName")
				feed[v.name] = mkT(v.shape, smallF32s(rt, prod(v.shape), 2, "stray"))
			}
			feed["no_such_value"] = mkT([]int{2}, []float32{7, 8})
			cls = append(cls, "stray-entries-in-the-callers-map")
		}
		cls = append(cls, fmt.Sprintf("nodes-%d", len(gg.nodes)))
		ev.Case("C01", gg.String(), c01Nontrivial(gg), cls...)

		ref := evalGraph(mp.Graph, gg.initVals, feed)
		lr := loadBytes(marshalModel(mp))
		if lr.panicked || lr.err != nil {
			rt.Fatalf("C01 violated: well-formed model does not load (%v %v): %v", lr.err, lr.panicVal, gg)
		}
		runFeed := gonnx.Tensors{}
		for k, v := range feed {
			runFeed[k] = cloneT(v)
		}
		rr := runModel(lr.m, runFeed)
		if rr.panicked {
			if ref.err != nil {
				ev.Class("C01", "both-fail")
				return // the same kernel fails in the evaluator: a kernel matter (C03-C11), not composition
			}
			rt.Fatalf("C01 violated: Run panics (%v) although the evaluator computes every value: %v", rr.panicVal, gg)
		}
		if rr.err != nil {
			if ref.err != nil {
				ev.Class("C01", "both-fail")
				return
			}
			if ref.short && gg.shortOut {
				ev.Class("C01", "run-refuses-omitted-output")
				return // a node listing fewer outputs than its operator returns may be refused
			}
			rt.Fatalf("C01 violated: Run reports %q although the evaluator computes every value: %v", rr.err, gg)
		}
		if ref.err != nil {
			rt.Fatalf("C01 violated: Run succeeds although applying the operators node by node fails at %s (%v): %v", ref.failedAt, ref.err, gg)
		}
		// exactly the declared outputs
		var want []string
		for _, o := range mp.Graph.Output {
			want = append(want, o.Name)
		}
		var got []string
		for k := range rr.outs {
			got = append(got, k)
		}
		sort.Strings(want)
		sort.Strings(got)
		if fmt.Sprint(want) != fmt.Sprint(got) {
			rt.Fatalf("C01 violated: Run returned outputs %v, declared %v: %v", got, want, gg)
		}
		for _, name := range want {
			o := rr.outs[name]
			if o == nil {
				rt.Fatalf("C01 violated: declared output %q is nil without an error: %v", name, gg)
			}
			// float values downstream of a dot-product kernel are reproducible only up to rounding
			// (alignment-dependent assembly kernels): 1e-5 relative per node of depth
			if d := approxSame(o, ref.env[name], 1e-5*float64(len(gg.nodes)+1)); d != "" {
				rt.Fatalf("C01 violated: output %q differs from the dataflow value: %s\n%v", name, d, gg)
			}
		}
		ev.Class("C01", "compared")
	})
}
