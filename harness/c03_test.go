package harness

// C03 — Elementwise binary arithmetic, comparison and logic follow ONNX broadcasting.

import (
	"fmt"
	"math"
	"reflect"
	"testing"

	"gorgonia.org/tensor"
	"pgregory.net/rapid"
)

type numeric interface {
	~int8 | ~int16 | ~int32 | ~int64 | ~uint8 | ~uint16 | ~uint32 | ~uint64 | ~float32 | ~float64
}

func arithRef[T numeric](op string, x, y T) T {
	switch op {
	case "Add":
		return x + y
	case "Sub":
		return x - y
	case "Mul":
		return x * y
	case "Div":
		return x / y
	}
	panic(op)
}

func cmpRef[T numeric | ~string](op string, x, y T) bool {
	switch op {
	case "Equal":
		return x == y
	case "Greater":
		return x > y
	case "GreaterOrEqual":
		return x >= y
	case "Less":
		return x < y
	case "LessOrEqual":
		return x <= y
	}
	panic(op)
}

// binaryRefTyped computes the broadcast result over flat row-major arrays.
func binaryRefTyped[T any, R any](a, b []T, sa, sb, so []int, f func(x, y T) R) []R {
	n := prod(so)
	out := make([]R, n)
	idx := make([]int, len(so))
	for k := 0; k < n; k++ {
		out[k] = f(a[bcastIndex(idx, sa)], b[bcastIndex(idx, sb)])
		for ax := len(idx) - 1; ax >= 0; ax-- {
			idx[ax]++
			if idx[ax] < so[ax] {
				break
			}
			idx[ax] = 0
		}
	}
	return out
}

func isArith(op string) bool { return op == "Add" || op == "Sub" || op == "Mul" || op == "Div" }
func isLogic(op string) bool { return op == "And" || op == "Or" || op == "Xor" }

func arithTyped[T numeric](op string, a, b any, sa, sb, so []int) any {
	return binaryRefTyped(a.([]T), b.([]T), sa, sb, so, func(x, y T) T { return arithRef(op, x, y) })
}
func cmpTyped[T numeric | ~string](op string, a, b any, sa, sb, so []int) any {
	return binaryRefTyped(a.([]T), b.([]T), sa, sb, so, func(x, y T) bool { return cmpRef(op, x, y) })
}

// binaryRef returns the reference backing for op over element slices a, b (Go slices of the
// element type), or nil when the reference is not defined for that (op, dtype).
func binaryRef(op string, dt tensor.Dtype, a, b any, sa, sb, so []int) any {
	if isLogic(op) {
		if dt != tensor.Bool {
			return nil
		}
		return binaryRefTyped(a.([]bool), b.([]bool), sa, sb, so, func(x, y bool) bool {
			switch op {
			case "And":
				return x && y
			case "Or":
				return x || y
			}
			return x != y
		})
	}
	if isArith(op) {
		switch dt {
		case tensor.Int8:
			return arithTyped[int8](op, a, b, sa, sb, so)
		case tensor.Int16:
			return arithTyped[int16](op, a, b, sa, sb, so)
		case tensor.Int32:
			return arithTyped[int32](op, a, b, sa, sb, so)
		case tensor.Int64:
			return arithTyped[int64](op, a, b, sa, sb, so)
		case tensor.Uint8:
			return arithTyped[uint8](op, a, b, sa, sb, so)
		case tensor.Uint16:
			return arithTyped[uint16](op, a, b, sa, sb, so)
		case tensor.Uint32:
			return arithTyped[uint32](op, a, b, sa, sb, so)
		case tensor.Uint64:
			return arithTyped[uint64](op, a, b, sa, sb, so)
		case tensor.Float32:
			return arithTyped[float32](op, a, b, sa, sb, so)
		case tensor.Float64:
			return arithTyped[float64](op, a, b, sa, sb, so)
		}
		return nil
	}
	switch dt {
	case tensor.Int8:
		return cmpTyped[int8](op, a, b, sa, sb, so)
	case tensor.Int16:
		return cmpTyped[int16](op, a, b, sa, sb, so)
	case tensor.Int32:
		return cmpTyped[int32](op, a, b, sa, sb, so)
	case tensor.Int64:
		return cmpTyped[int64](op, a, b, sa, sb, so)
	case tensor.Uint8:
		return cmpTyped[uint8](op, a, b, sa, sb, so)
	case tensor.Uint16:
		return cmpTyped[uint16](op, a, b, sa, sb, so)
	case tensor.Uint32:
		return cmpTyped[uint32](op, a, b, sa, sb, so)
	case tensor.Uint64:
		return cmpTyped[uint64](op, a, b, sa, sb, so)
	case tensor.Float32:
		return cmpTyped[float32](op, a, b, sa, sb, so)
	case tensor.Float64:
		return cmpTyped[float64](op, a, b, sa, sb, so)
	case tensor.Bool:
		if op == "Equal" {
			return binaryRefTyped(a.([]bool), b.([]bool), sa, sb, so, func(x, y bool) bool { return x == y })
		}
	case tensor.String:
		if op == "Equal" {
			return cmpTyped[string](op, a, b, sa, sb, so)
		}
	case tensor.Complex64:
		if op == "Equal" {
			return binaryRefTyped(a.([]complex64), b.([]complex64), sa, sb, so, func(x, y complex64) bool { return x == y })
		}
	case tensor.Complex128:
		if op == "Equal" {
			return binaryRefTyped(a.([]complex128), b.([]complex128), sa, sb, so, func(x, y complex128) bool { return x == y })
		}
	}
	return nil
}

var c03Ops = []string{"Add", "Sub", "Mul", "Div", "Equal", "Greater", "GreaterOrEqual", "Less", "LessOrEqual", "And", "Or", "Xor"}

// mustCompute: the operand types the statement says are computed rather than refused.
func c03MustCompute(op string, dt tensor.Dtype) bool {
	if isLogic(op) {
		return dt == tensor.Bool
	}
	return dt == tensor.Float32 || dt == tensor.Float64 || dt == tensor.Int32 || dt == tensor.Int64
}

func sliceOf(t tensor.Tensor) any { return elems(t).Interface() }

type c03Case struct {
	op     string
	dt     tensor.Dtype
	a, b   tensor.Tensor
	compat bool
	so     []int
	same   bool // the very same tensor object is passed as both operands (x op x)
}

func (c c03Case) String() string {
	return fmt.Sprintf("%s %s x %s", c.op, descT(c.a), descT(c.b))
}

// c03Judge evaluates one outcome against the specification.
func c03Judge(c c03Case, res opResult) string {
	if res.panicked {
		return "panic: " + fmt.Sprint(res.panicVal)
	}
	if !c.compat {
		if res.err == nil {
			return "incompatible shapes were not refused: " + res.String()
		}
		return ""
	}
	want := binaryRef(c.op, c.dt, sliceOf(c.a), sliceOf(c.b), c.a.Shape(), c.b.Shape(), c.so)
	if res.err != nil {
		if c03MustCompute(c.op, c.dt) {
			return "refused although this operand type must be computed: " + res.err.Error()
		}
		ev.Refused("C03 " + c.op + " " + c.dt.String() + ": " + refusalReason(res.err))
		return ""
	}
	if want == nil {
		// no ONNX meaning (ordering of bool/complex/string): only "no panic" is asserted
		return ""
	}
	if len(res.outs) != 1 || res.outs[0] == nil {
		return "expected exactly one non-nil output"
	}
	wt := mkT(c.so, want)
	hdr, bad := mismatches(res.outs[0], wt)
	if hdr != "" {
		return "result differs from reference: " + hdr
	}
	if len(bad) == 0 {
		return ""
	}
	got, ref, div := f64sIfNumeric(res.outs[0]), f64sIfNumeric(wt), f64sIfNumeric(c.b)
	for _, i := range bad {
		// KF-C03-float-div-by-zero: gorgonia's float division kernels answer x/0 with +Inf for every x
		if c.op == "Div" && isFloat(c.dt) && div[bcastIndex(unravel(i, c.so), c.b.Shape())] == 0 && math.IsInf(got[i], 1) && kfAccept("KF-C03-float-div-by-zero") {
			continue
		}
		return fmt.Sprintf("result differs from reference at element %d: got %v want %v", i, got[i], ref[i])
	}
	return ""
}

func f64sIfNumeric(t tensor.Tensor) []float64 {
	switch t.Dtype() {
	case tensor.String:
		return make([]float64, prod(t.Shape()))
	}
	return f64s(t)
}

func c03Gen(rt *rapid.T) c03Case {
	var c c03Case
	c.op = drawOp(rt, c03Ops)
	probe := runOpConstraints(c.op)
	c.dt = rapid.SampledFrom(probe[0]).Draw(rt, "dtype")
	// weight towards the must-compute types
	if !c03MustCompute(c.op, c.dt) && rapid.Bool().Draw(rt, "preferMust") {
		var must []tensor.Dtype
		for _, d := range probe[0] {
			if c03MustCompute(c.op, d) {
				must = append(must, d)
			}
		}
		c.dt = rapid.SampledFrom(must).Draw(rt, "dtypeMust")
	}
	p := genBroadcastPair(4, 5, 1500).Draw(rt, "shapes")
	sa, sb := p[0], p[1]
	c.so, c.compat = p[2], true
	if rapid.IntRange(0, 5).Draw(rt, "incompatible") == 0 {
		var ok bool
		sa, sb, ok = corruptPair(rt, sa, sb)
		if ok {
			c.compat = false
		}
	}
	c.a = genTensor(c.dt, sa, true).Draw(rt, "A")
	if eqInts(sa, sb) && c.compat && rapid.IntRange(0, 5).Draw(rt, "sameObject") == 0 && !(c.op == "Div" && isInt(c.dt)) {
		c.b, c.same = c.a, true
		return c
	}
	c.b = genTensor(c.dt, sb, true).Draw(rt, "B")
	if c.op == "Div" && isInt(c.dt) {
		// integer division by zero is undefined in ONNX: replace zero divisors by 1
		bv := reflect.ValueOf(c.b.Data())
		fix := func(v reflect.Value) {
			if v.CanInt() && v.Int() == 0 {
				v.SetInt(1)
			} else if v.CanUint() && v.Uint() == 0 {
				v.SetUint(1)
			}
		}
		if bv.Kind() == reflect.Slice {
			for i := 0; i < bv.Len(); i++ {
				fix(bv.Index(i))
			}
		} else if numOf(bv) == 0 {
			c.b = mkT(sb, backingOf(c.dt, 1, func(int) float64 { return 1 }))
		}
	}
	return c
}

// runOpConstraints returns the dtype gate of an operator as the operator itself reports it.
func runOpConstraints(opType string) [][]tensor.Dtype {
	op, err := getOperator(opType)
	if err != nil {
		panic(err)
	}
	return op.GetInputTypeConstraints()
}

func TestC03(t *testing.T) {
	ev.Begin("C03",
		"rapid: operator drawn from the 12, dtype from the operator's own gate (biased to the must-compute types), broadcast pair constructed (result shape drawn, each operand independently truncated in rank and squeezed per axis) or corrupted to be incompatible, values from the special mixture (NaN, ±Inf, ±0, extremes; integer divisors non-zero). "+
			"Non-trivial = shapes differ or a special value participates; distinct = (op, dtype, shapes, value bits).",
		"reference: Go scalar arithmetic (IEEE-754 float32/float64, wrapping integers, truncating division)",
		"ordering comparisons of bool/complex/string operands have no ONNX meaning: only no-panic is asserted there")
	defer reportKnownFindings("C03")

	check(t, "ops", 40000, 500000, func(rt *rapid.T) {
		c := c03Gen(rt)
		node := mkNode(c.op, []string{"a", "b"}, []string{"y"})
		sa, sb := snap(c.a), snap(c.b)
		ins := []tensor.Tensor{cloneT(c.a), cloneT(c.b)}
		if c.same {
			ins[1] = ins[0]
		}
		res := runOp(c.op, node, ins)
		stretchedA, stretchedB := !eqInts(c.a.Shape(), c.so), !eqInts(c.b.Shape(), c.so)
		cls := []string{"op-" + c.op, "dtype-" + c.dt.String()}
		switch {
		case !c.compat:
			cls = append(cls, "incompatible")
		case stretchedA && stretchedB:
			cls = append(cls, "both-stretched")
		case stretchedA || stretchedB:
			cls = append(cls, "one-stretched")
		default:
			cls = append(cls, "same-shape")
		}
		if len(c.a.Shape()) == 0 || len(c.b.Shape()) == 0 {
			cls = append(cls, "rank0-operand")
		}
		if c.same {
			cls = append(cls, "same-object-both-operands")
		}
		nontrivial := !eqInts(c.a.Shape(), c.b.Shape()) || hasSpecial(c.a) || hasSpecial(c.b)
		ev.Case("C03", c.String(), nontrivial, cls...)
		if v := c03Judge(c, res); v != "" {
			rt.Fatalf("C03 violated by %v: %s", c, v)
		}
		_ = sa
		_ = sb
		if rapid.IntRange(0, 4).Draw(rt, "modelLevel") == 0 {
			if _, enc := onnxTypeOf[c.dt]; enc {
				mres := runSingleNodeModel(node, []tensor.Tensor{cloneT(c.a), cloneT(c.b)}, 1)
				ev.Class("C03", "model-level")
				if d := agreeLevels(res, mres); d != "" {
					rt.Fatalf("C03 violated by %v: single-node model disagrees with operator API: %s", c, d)
				}
			}
		}
	})
}

func init() {
	kfRepro["KF-C03-float-div-by-zero"] = func() (bool, string) {
		r := runOp("Div", mkNode("Div", nil, nil), []tensor.Tensor{mkT([]int{2}, []float32{0, -1}), mkT([]int{2}, []float32{0, 0})})
		if !r.ok() {
			return true, r.String()
		}
		g := f64s(r.outs[0])
		return !(math.IsNaN(g[0]) && math.IsInf(g[1], -1)), fmt.Sprintf("Div([0,-1],[0,0]) = %v, IEEE-754: [NaN -Inf]", g)
	}
}
