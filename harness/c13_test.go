package harness

// C13 — Run accepts exactly the input sets that satisfy the declared signature.

import (
	"fmt"
	"sort"
	"testing"

	"github.com/advancedclimatesystems/gonnx"
	"github.com/advancedclimatesystems/gonnx/onnx"
	"gorgonia.org/tensor"
	"pgregory.net/rapid"
)

type sigDim struct {
	kind string // fixed | symbolic | unspecified
	size int    // fixed only
	name string // symbolic only
}

type sigInput struct {
	name     string
	dims     []sigDim
	shadowed bool // also an initializer
}

func (s sigInput) String() string {
	out := s.name + "("
	for i, d := range s.dims {
		if i > 0 {
			out += ","
		}
		switch d.kind {
		case "fixed":
			out += fmt.Sprint(d.size)
		case "symbolic":
			out += d.name
		default:
			out += "?"
		}
	}
	out += ")"
	if s.shadowed {
		out += "=init"
	}
	return out
}

func genSignature(rt *rapid.T) []sigInput {
	n := rapid.IntRange(1, 3).Draw(rt, "nInputs")
	sig := make([]sigInput, n)
	for i := range sig {
		sig[i].name = fmt.Sprintf("x%d", i)
		r := rapid.IntRange(1, 4).Draw(rt, "rank")
		for a := 0; a < r; a++ {
			switch rapid.IntRange(0, 3).Draw(rt, "dimKind") {
			case 0:
				sig[i].dims = append(sig[i].dims, sigDim{kind: "symbolic", name: rapid.SampledFrom([]string{"batch", "N", "seq"}).Draw(rt, "param")})
			case 1:
				sig[i].dims = append(sig[i].dims, sigDim{kind: "unspecified"})
			default:
				sig[i].dims = append(sig[i].dims, sigDim{kind: "fixed", size: rapid.IntRange(1, 5).Draw(rt, "size")})
			}
		}
		sig[i].shadowed = rapid.IntRange(0, 5).Draw(rt, "shadowed") == 0
	}
	if n >= 2 && rapid.IntRange(0, 3).Draw(rt, "siblings") == 0 {
		// inputs whose declarations are nearly the same: every further input repeats the first one's
		// dimensions with one of them redrawn (a shape that fits one of them almost fits the other)
		for i := 1; i < n; i++ {
			sig[i].dims = append([]sigDim(nil), sig[0].dims...)
			a := rapid.IntRange(0, len(sig[i].dims)-1).Draw(rt, "siblingAxis")
			switch rapid.IntRange(0, 3).Draw(rt, "siblingKind") {
			case 0:
				sig[i].dims[a] = sigDim{kind: "symbolic", name: rapid.SampledFrom([]string{"batch", "N", "seq"}).Draw(rt, "param")}
			case 1:
				sig[i].dims[a] = sigDim{kind: "unspecified"}
			default:
				sig[i].dims[a] = sigDim{kind: "fixed", size: rapid.IntRange(1, 5).Draw(rt, "size")}
			}
		}
	}
	if n >= 2 && rapid.IntRange(0, 7).Draw(rt, "allDefaults") == 0 {
		// a model whose inputs all have defaults (every subset of them is a valid call)
		for i := range sig {
			sig[i].shadowed = true
		}
	}
	return sig
}

// conforming shape for an input: fixed dims as declared, others drawn in 1..9 (bounded product).
func conformingShape(rt *rapid.T, in sigInput) []int {
	s := make([]int, len(in.dims))
	n := 1
	for i, d := range in.dims {
		if d.kind == "fixed" {
			s[i] = d.size
		} else {
			s[i] = rapid.IntRange(1, 9).Draw(rt, "dyn")
			if rapid.IntRange(0, 11).Draw(rt, "bigDyn") == 0 {
				s[i] = rapid.SampledFrom(bigExtents).Draw(rt, "bigDynExt")
			}
			if n*s[i] > 2000 {
				s[i] = 1
			}
		}
		n *= s[i]
	}
	return s
}

func sigModel(sig []sigInput, initShapes map[string][]int) []byte {
	g := &onnx.GraphProto{}
	for i, in := range sig {
		dims := make([]any, len(in.dims))
		for a, d := range in.dims {
			switch d.kind {
			case "fixed":
				dims[a] = d.size
			case "symbolic":
				dims[a] = d.name
			default:
				dims[a] = nil
			}
		}
		vi := valueInfo(in.name, 1, dims...)
		// rarely populated field: the denotation of a dimension has no influence on its size
		for a, d := range vi.Type.GetTensorType().Shape.Dim {
			switch (len(in.name) + 3*a + i) % 5 {
			case 1:
				d.Denotation = "DATA_BATCH"
			case 2:
				d.Denotation = "DATA_CHANNEL"
			case 3:
				d.Denotation = "DATA_FEATURE"
			}
		}
		g.Input = append(g.Input, vi)
		out := fmt.Sprintf("y%d", i)
		g.Node = append(g.Node, mkNode("Abs", []string{in.name}, []string{out}))
		g.Output = append(g.Output, valueInfoNoShape(out))
		if in.shadowed {
			s := initShapes[in.name]
			g.Initializer = append(g.Initializer, protoOf(in.name, mkT(s, backingOf(tensor.Float32, prod(s), func(j int) float64 { return float64(-j - 1) }))))
		}
	}
	return marshalModel(mkModel(g, 13))
}

func TestC13(t *testing.T) {
	ev.Begin("C13",
		"rapid: signatures with 1..3 float32 inputs of rank 1..4, every dimension independently fixed (1..5), symbolic or unspecified, an input shadowed by an initializer with probability 1/6; graph = one Abs per input; supplied sets: conforming (dynamic axes 1..9), one fixed axis off by +-1, a dynamic axis changed, rank +-1 / 0 / 5, a name missing, an extra name, tensors permuted among the names, shadowed input omitted or supplied. "+
			"Non-trivial = (>= 2 inputs or a symbolic non-leading axis or a shadowed input) and the supplied set differs from the plain conforming one. Distinct = (signature, supplied shapes by name).",
		"oracle: the acceptance predicate of the statement evaluated on (signature, supplied set); outputs must be nil on error and caller tensors unchanged")
	defer reportKnownFindings("C13")

	check(t, "signature", 25000, 250000, func(rt *rapid.T) {
		sig := genSignature(rt)
		initShapes := map[string][]int{}
		for _, in := range sig {
			if in.shadowed {
				initShapes[in.name] = conformingShape(rt, in)
			}
		}
		lr := loadBytes(sigModel(sig, initShapes))
		if lr.panicked || lr.err != nil {
			rt.Fatalf("C13 violated: well-formed model with signature %v does not load: %v %v", sig, lr.err, lr.panicVal)
		}
		m := lr.m

		// ---- introspection equals the declaration
		names := m.InputNames()
		if len(names) != len(sig) {
			rt.Fatalf("C13 violated: InputNames %v for signature %v", names, sig)
		}
		shapes := m.InputShapes()
		for i, in := range sig {
			if names[i] != in.name {
				rt.Fatalf("C13 violated: InputNames %v not in declared order %v", names, sig)
			}
			sh := shapes[in.name]
			if len(sh) != len(in.dims) {
				rt.Fatalf("C13 violated: InputShapes[%s] has rank %d, declared %v", in.name, len(sh), in)
			}
			for a, d := range in.dims {
				fixed := d.kind == "fixed"
				if sh[a].IsDynamic == fixed || (fixed && sh[a].Size != int64(d.size)) || (d.kind == "symbolic" && sh[a].Name != d.name) {
					rt.Fatalf("C13 violated: InputShapes[%s][%d] = %+v, declared %v", in.name, a, sh[a], in)
				}
				sz, err := m.InputDimSize(in.name, a)
				if err != nil || int64(sz) != sh[a].Size {
					rt.Fatalf("C13 violated: InputDimSize(%s,%d) = %d,%v but InputShapes reports %+v", in.name, a, sz, err, sh[a])
				}
			}
			if _, err := m.InputDimSize(in.name, len(in.dims)); err == nil {
				rt.Fatalf("C13 violated: InputDimSize(%s,%d) beyond the rank gives no error", in.name, len(in.dims))
			}
		}
		if _, err := m.InputDimSize("nope", 0); err == nil {
			rt.Fatalf("C13 violated: InputDimSize of an undeclared input gives no error")
		}
		// what the introspection methods return belongs to the caller: writing to it (resolving a
		// symbolic dimension, dropping an entry) must not change what Run enforces
		if rapid.IntRange(0, 3).Draw(rt, "scribble") == 0 {
			for name, sh := range shapes {
				for a := range sh {
					sh[a].IsDynamic = !sh[a].IsDynamic
					sh[a].Size += 7
				}
				if rapid.Bool().Draw(rt, "dropEntry") {
					delete(shapes, name)
				}
			}
			for i := range names {
				names[i] = "scribbled"
			}
		}

		// ---- build the supplied set
		supplied := map[string][]int{}
		for _, in := range sig {
			if in.shadowed && rapid.Bool().Draw(rt, "omitShadowed") {
				continue
			}
			supplied[in.name] = conformingShape(rt, in)
		}
		mutation := rapid.SampledFrom([]string{"none", "none", "fixed-off-by-one", "dynamic-changed", "rank-plus", "rank-minus", "rank-0", "rank-5", "missing", "extra", "permuted"}).Draw(rt, "mutation")
		pick := func() (sigInput, bool) {
			var have []sigInput
			for _, in := range sig {
				if _, ok := supplied[in.name]; ok {
					have = append(have, in)
				}
			}
			if len(have) == 0 {
				return sigInput{}, false
			}
			return rapid.SampledFrom(have).Draw(rt, "victim"), true
		}
		switch mutation {
		case "fixed-off-by-one":
			if in, ok := pick(); ok {
				var fixedAxes []int
				for a, d := range in.dims {
					if d.kind == "fixed" {
						fixedAxes = append(fixedAxes, a)
					}
				}
				if len(fixedAxes) > 0 {
					a := rapid.SampledFrom(fixedAxes).Draw(rt, "axis")
					s := cloneInts(supplied[in.name])
					if s[a] > 1 && rapid.Bool().Draw(rt, "minus") {
						s[a]--
					} else {
						s[a]++
					}
					supplied[in.name] = s
				}
			}
		case "dynamic-changed":
			if in, ok := pick(); ok {
				for a, d := range in.dims {
					if d.kind != "fixed" {
						s := cloneInts(supplied[in.name])
						s[a] = s[a]%9 + 1
						supplied[in.name] = s
						break
					}
				}
			}
		case "rank-plus":
			if in, ok := pick(); ok {
				s := supplied[in.name]
				if rapid.Bool().Draw(rt, "front") {
					supplied[in.name] = append([]int{1}, s...)
				} else {
					supplied[in.name] = append(cloneInts(s), 1)
				}
			}
		case "rank-minus":
			if in, ok := pick(); ok {
				supplied[in.name] = cloneInts(supplied[in.name][1:])
			}
		case "rank-0":
			if in, ok := pick(); ok {
				supplied[in.name] = []int{}
			}
		case "rank-5":
			if in, ok := pick(); ok {
				supplied[in.name] = []int{1, 2, 1, 2, 1}
			}
		case "missing":
			if in, ok := pick(); ok {
				delete(supplied, in.name)
			}
		case "extra":
			supplied["unrelated"] = []int{2}
		case "permuted":
			var ks []string
			for k := range supplied {
				ks = append(ks, k)
			}
			sort.Strings(ks)
			if len(ks) >= 2 {
				perm := rapid.Permutation(ks).Draw(rt, "perm")
				old := map[string][]int{}
				for k, v := range supplied {
					old[k] = v
				}
				for i, k := range ks {
					supplied[k] = old[perm[i]]
				}
			}
		}

		// one tensor object may be supplied under several names: every name is judged on its own
		sameObject := map[string]string{}
		if len(supplied) >= 2 && rapid.IntRange(0, 4).Draw(rt, "sameObjectTwice") == 0 {
			var names []string
			for k := range supplied {
				names = append(names, k)
			}
			sort.Strings(names)
			pair := rapid.Permutation(names).Draw(rt, "sameObjectPair")[:2]
			supplied[pair[1]] = supplied[pair[0]]
			sameObject[pair[1]] = pair[0]
		}

		// ---- the predicate of the statement
		wantErr, why := false, ""
		shadowedSuppliedWrong := false
		for _, in := range sig {
			s, ok := supplied[in.name]
			if !ok {
				if !in.shadowed {
					wantErr, why = true, in.name+" missing"
				}
				continue
			}
			bad := len(s) != len(in.dims)
			if !bad {
				for a, d := range in.dims {
					if d.kind == "fixed" && s[a] != d.size {
						bad = true
					}
				}
			}
			if bad {
				if in.shadowed {
					shadowedSuppliedWrong = true
				} else {
					wantErr, why = true, fmt.Sprintf("%s supplied with %v", in.name, s)
				}
			}
		}

		feed := gonnx.Tensors{}
		snaps := map[string]snapshot{}
		var keys []string
		for k := range supplied {
			keys = append(keys, k)
		}
		sort.Strings(keys)

		desc := fmt.Sprint(sig) + " <-"
		for _, k := range keys {
			s := supplied[k]
			feed[k] = mkT(s, backingOf(tensor.Float32, prod(s), func(j int) float64 { return float64(j%7) - 3 }))
			snaps[k] = snap(feed[k])
			desc += fmt.Sprintf(" %s%v", k, s)
		}
		for k, first := range sameObject {
			if feed[first] != nil {
				feed[k] = feed[first] // the very same tensor object under a second name
				snaps[k] = snap(feed[k])
			}
		}
		symNonLeading, anyShadow := false, false
		for _, in := range sig {
			for a, d := range in.dims {
				if a > 0 && d.kind != "fixed" {
					symNonLeading = true
				}
			}
			anyShadow = anyShadow || in.shadowed
		}
		ev.Case("C13", desc, (len(sig) >= 2 || symNonLeading || anyShadow) && mutation != "none", "mutation-"+mutation, fmt.Sprintf("inputs-%d", len(sig)), fmt.Sprintf("expect-error-%v", wantErr))

		// the verdict on this set must not depend on what the Model was asked before: an earlier
		// accepted Run with other sizes along the free axes, or an earlier refused Run
		switch rapid.IntRange(0, 7).Draw(rt, "history") {
		case 0, 1:
			prior := gonnx.Tensors{}
			for _, in := range sig {
				if in.shadowed && rapid.Bool().Draw(rt, "priorOmitsShadowed") {
					continue
				}
				ps := conformingShape(rt, in)
				prior[in.name] = mkT(ps, backingOf(tensor.Float32, prod(ps), func(j int) float64 { return float64(j%5) - 2 }))
			}
			pr := runModel(m, prior)
			ev.Class("C13", "after-an-accepted-run")
			if pr.panicked || pr.err != nil {
				rt.Fatalf("C13 violated by %v: a conforming input set (before the set under test) was rejected: %v %v", sig, pr.err, pr.panicVal)
			}
		case 3, 4:
			// an earlier accepted Run that hands the shapes of the set under test to the inputs whose
			// declaration they fit (another assignment of the same shapes to names)
			prior := gonnx.Tensors{}
			var pool [][]int
			for _, k := range keys {
				pool = append(pool, supplied[k])
			}
			for _, in := range sig {
				var fits [][]int
				for _, s := range pool {
					ok := len(s) == len(in.dims) && prod(s) > 0
					for a := 0; ok && a < len(s); a++ {
						ok = in.dims[a].kind != "fixed" || s[a] == in.dims[a].size
					}
					if ok {
						fits = append(fits, s)
					}
				}
				var ps []int
				switch {
				case len(fits) > 0:
					ps = fits[rapid.IntRange(0, len(fits)-1).Draw(rt, "priorFit")]
				case in.shadowed:
					continue
				default:
					ps = conformingShape(rt, in)
				}
				prior[in.name] = mkT(ps, backingOf(tensor.Float32, prod(ps), func(j int) float64 { return float64(j%5) - 2 }))
			}
			pr := runModel(m, prior)
			ev.Class("C13", "after-an-accepted-run-with-the-same-shapes-under-other-names")
			if pr.panicked || pr.err != nil {
				rt.Fatalf("C13 violated by %v: a conforming input set %v (before the set under test) was rejected: %v %v", sig, shapesOf(prior), pr.err, pr.panicVal)
			}
		case 2:
			pr := runModel(m, gonnx.Tensors{"unrelated": mkT([]int{2}, []float32{1, 2})})
			ev.Class("C13", "after-a-refused-run")
			if pr.panicked {
				rt.Fatalf("C13 violated by %v: Run without the declared inputs panics: %v", sig, pr.panicVal)
			}
		}

		rr := runModel(m, feed)
		if rr.panicked {
			rt.Fatalf("C13 violated by %s: Run panics: %v", desc, rr.panicVal)
		}
		for _, k := range keys {
			if d := snaps[k].diff(snap(feed[k])); d != "" {
				rt.Fatalf("C13 violated by %s: supplied tensor %s was modified: %s", desc, k, d)
			}
		}
		if rr.err != nil && rr.outs != nil {
			rt.Fatalf("C13 violated by %s: Run returned an error together with outputs", desc)
		}
		if shadowedSuppliedWrong && !wantErr {
			// by the letter of the statement a supplied tensor of wrong rank / fixed size must be
			// rejected even when the input has an initializer default
			if rr.err == nil {
				rt.Fatalf("C13 violated by %s: a non-conforming tensor supplied for an initializer-backed input was accepted", desc)
			}
			return
		}
		if wantErr {
			if rr.err == nil {
				rt.Fatalf("C13 violated by %s: accepted although %s", desc, why)
			}
			return
		}
		if rr.err != nil {
			rt.Fatalf("C13 violated by %s: conforming input set rejected: %v", desc, rr.err)
		}
		// the same tensor object, reshaped in place by its owner to another rank, is a different
		// supplied set: it must be judged again
		if rapid.IntRange(0, 3).Draw(rt, "reshapeSameObject") == 0 {
			for _, in := range sig {
				t, ok := feed[in.name]
				if !ok || in.shadowed || len(t.Shape()) < 2 {
					continue
				}
				if err := t.Reshape(prod(t.Shape())); err != nil {
					break
				}
				r2 := runModel(m, feed)
				ev.Class("C13", "same-object-reshaped-second-run")
				if r2.panicked {
					rt.Fatalf("C13 violated by %s: second Run with %s flattened in place panics: %v", desc, in.name, r2.panicVal)
				}
				if r2.err == nil {
					rt.Fatalf("C13 violated by %s: after a valid Run the same tensor object %s, reshaped in place to rank 1, was accepted", desc, in.name)
				}
				return
			}
		}
		for i, in := range sig {
			out := rr.outs[fmt.Sprintf("y%d", i)]
			if out == nil {
				rt.Fatalf("C13 violated by %s: output y%d missing", desc, i)
			}
			src, ok := feed[in.name]
			if !ok {
				// shadowed input left out: the initializer is the default
				is := initShapes[in.name]
				src = mkT(is, backingOf(tensor.Float32, prod(is), func(j int) float64 { return float64(-j - 1) }))
			}
			if !eqInts(out.Shape(), src.Shape()) {
				rt.Fatalf("C13 violated by %s: output y%d has shape %v, input %v", desc, i, out.Shape(), src.Shape())
			}
			g, x := f64s(out), f64s(src)
			for j := range g {
				ax := x[j]
				if ax < 0 {
					ax = -ax
				}
				if g[j] != ax {
					rt.Fatalf("C13 violated by %s: output y%d[%d] = %v, want |%v|", desc, i, j, g[j], x[j])
				}
			}
		}
	})
}

func shapesOf(ts gonnx.Tensors) string {
	var ks []string
	for k := range ts {
		ks = append(ks, k)
	}
	sort.Strings(ks)
	out := ""
	for _, k := range ks {
		out += fmt.Sprintf(" %s%v", k, ts[k].Shape())
	}
	return out
}
