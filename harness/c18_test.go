package harness

// C18 — Loading never crashes; unsupported opsets/operators are refused with an error.

import (
	"errors"
	"fmt"
	"math"
	"os"
	"sort"
	"testing"

	"github.com/advancedclimatesystems/gonnx"
	"github.com/advancedclimatesystems/gonnx/onnx"
	"github.com/advancedclimatesystems/gonnx/ops"
	"github.com/advancedclimatesystems/gonnx/ops/opset13"
	"google.golang.org/protobuf/proto"
	"pgregory.net/rapid"
)

// c18Oracle applies the load-time part of the property to one byte string.
func c18Oracle(b []byte) (violation string, class string) {
	lr := loadBytes(b)
	if lr.panicked {
		return fmt.Sprintf("NewModelFromBytes panics: %v", lr.panicVal), "panic"
	}
	if lr.m == nil && lr.err == nil {
		return "NewModelFromBytes returned neither a model nor an error", "nil-nil"
	}
	mp := &onnx.ModelProto{}
	if err := proto.Unmarshal(b, mp); err != nil {
		if lr.err == nil {
			return "bytes that are not a ModelProto were accepted", "unparseable"
		}
		return "", "unparseable"
	}
	cls := "parsed-empty"
	if g := mp.GetGraph(); g != nil && (len(g.GetInitializer()) > 0 || len(g.GetNode()) > 0) {
		cls = "parsed-with-content"
	}
	var maxOpset int64
	for _, o := range mp.GetOpsetImport() {
		if o.GetVersion() > maxOpset {
			maxOpset = o.GetVersion()
		}
	}
	if maxOpset != 13 {
		if errors.Is(lr.err, ops.ErrUnsupportedOpsetVersion) {
			return "", cls + "-opset-refused"
		}
		// another error is acceptable only if the model is unloadable for another reason too:
		// decide by loading the same model with the opset forced to 13
		mp.OpsetImport = []*onnx.OperatorSetIdProto{{Version: 13}}
		b2, err := proto.Marshal(mp)
		if err != nil {
			return "", cls
		}
		l2 := loadBytes(b2)
		if l2.panicked {
			return fmt.Sprintf("NewModelFromBytes panics (opset forced to 13): %v", l2.panicVal), "panic"
		}
		if l2.err == nil {
			if lr.err == nil {
				return fmt.Sprintf("model with highest opset version %d was loaded", maxOpset), cls
			}
			return fmt.Sprintf("model with highest opset version %d refused with %q instead of the unsupported-opset error", maxOpset, lr.err), cls
		}
		return "", cls + "-otherwise-invalid"
	}
	return "", cls
}

// perturbModel applies one structured perturbation to a valid model.
func perturbModel(rt *rapid.T, mp *onnx.ModelProto) string {
	g := mp.Graph
	kinds := []string{"opset", "opset", "op_type", "node-wiring", "value-info"}
	if len(g.Initializer) > 0 {
		kinds = append(kinds, "init-dims", "init-dims", "init-type", "init-payload", "init-payload", "init-fields")
	}
	k := rapid.SampledFrom(kinds).Draw(rt, "perturbation")
	switch k {
	case "opset":
		switch rapid.IntRange(0, 5).Draw(rt, "opsetKind") {
		case 0:
			mp.OpsetImport = nil
		case 5:
			// versions that only equal 13 after truncation to 32 or 16 bits
			mp.OpsetImport = []*onnx.OperatorSetIdProto{{Version: rapid.SampledFrom([]int64{1<<32 + 13, 1<<33 + 13, 1<<40 | 13, 1<<16 + 13, -(1<<32 - 13), 1<<63 - 1}).Draw(rt, "wideVersion")}}
		case 1:
			mp.OpsetImport = []*onnx.OperatorSetIdProto{{Version: int64(rapid.IntRange(-1, 25).Draw(rt, "version"))}}
		case 2:
			mp.OpsetImport = []*onnx.OperatorSetIdProto{{Version: 13}, {Domain: "ai.onnx.ml", Version: int64(rapid.IntRange(1, 25).Draw(rt, "mlVersion"))}}
		case 3:
			mp.OpsetImport = []*onnx.OperatorSetIdProto{{Domain: "ai.onnx.ml", Version: 2}, {Version: int64(rapid.IntRange(7, 21).Draw(rt, "version"))}}
		default:
			mp.OpsetImport = append(mp.OpsetImport, &onnx.OperatorSetIdProto{Version: int64(rapid.IntRange(1, 12).Draw(rt, "lower"))})
		}
	case "op_type":
		if len(g.Node) > 0 {
			n := g.Node[rapid.IntRange(0, len(g.Node)-1).Draw(rt, "node")]
			n.OpType = rapid.SampledFrom([]string{"", "abs", "RELU", "Identity", n.OpType + "V2", "Erf", "Dropout"}).Draw(rt, "opType")
		}
	case "node-wiring":
		if len(g.Node) > 0 {
			n := g.Node[rapid.IntRange(0, len(g.Node)-1).Draw(rt, "node")]
			switch rapid.IntRange(0, 3).Draw(rt, "wiring") {
			case 0:
				n.Input = nil
			case 1:
				n.Output = nil
			case 2:
				n.Input = append(n.Input, "nowhere")
			default:
				n.Attribute = append(n.Attribute, &onnx.AttributeProto{Name: "bogus", Type: onnx.AttributeProto_TENSOR})
			}
		}
	case "value-info":
		vis := append(append([]*onnx.ValueInfoProto{}, g.Input...), g.Output...)
		if len(vis) > 0 {
			vi := vis[rapid.IntRange(0, len(vis)-1).Draw(rt, "vi")]
			switch rapid.IntRange(0, 4).Draw(rt, "viKind") {
			case 0:
				vi.Type = nil
			case 1:
				vi.Name = ""
			case 2:
				vi.Type = &onnx.TypeProto{}
			case 3:
				*vi = *valueInfo(vi.Name, int32(rapid.IntRange(-1, 20).Draw(rt, "elem")), -3, nil, "n")
			default:
				g.Input = append(g.Input, vi)
			}
		}
	case "init-dims":
		tp := g.Initializer[rapid.IntRange(0, len(g.Initializer)-1).Draw(rt, "init")]
		switch rapid.IntRange(0, 8).Draw(rt, "dimsKind") {
		case 7, 8:
			// zeros, negatives and wrapping extents, with a payload of the wrapped element count
			dims, k := genHostileDims(rt)
			tp.Dims, tp.DataType = dims, 1
			tp.RawData, tp.FloatData, tp.DoubleData, tp.Int32Data, tp.Int64Data, tp.Uint64Data = nil, nil, nil, nil, nil, nil
			if rapid.Bool().Draw(rt, "hostileRaw") {
				tp.RawData = make([]byte, 4*k)
			} else {
				tp.FloatData = make([]float32, k)
			}
		case 0:
			tp.Dims = nil
		case 1:
			tp.Dims = append(tp.Dims, int64(rapid.IntRange(0, 3).Draw(rt, "extra")))
		case 2:
			if len(tp.Dims) > 0 {
				tp.Dims[rapid.IntRange(0, len(tp.Dims)-1).Draw(rt, "at")] = int64(rapid.IntRange(-3, 0).Draw(rt, "neg"))
			}
		case 3:
			tp.Dims = []int64{1 << 62, 1 << 62, 16}
		case 6:
			// every dim negated: an even number of negative dims keeps the product positive
			for i := range tp.Dims {
				tp.Dims[i] = -tp.Dims[i]
			}
			if len(tp.Dims) == 1 {
				tp.Dims = append(tp.Dims, -1)
			}
		case 4:
			tp.Dims = []int64{-1 << 63}
		default:
			if len(tp.Dims) > 0 {
				tp.Dims[0]++
			}
		}
	case "init-type":
		tp := g.Initializer[rapid.IntRange(0, len(g.Initializer)-1).Draw(rt, "init")]
		tp.DataType = int32(rapid.IntRange(-2, 24).Draw(rt, "dataType"))
	case "init-payload":
		tp := g.Initializer[rapid.IntRange(0, len(g.Initializer)-1).Draw(rt, "init")]
		switch rapid.IntRange(0, 3).Draw(rt, "payloadKind") {
		case 0:
			if len(tp.RawData) > 0 {
				tp.RawData = tp.RawData[:rapid.IntRange(0, len(tp.RawData)-1).Draw(rt, "cut")]
			} else if len(tp.FloatData) > 0 {
				tp.FloatData = tp.FloatData[:len(tp.FloatData)-1]
			}
		case 1:
			tp.RawData = append(tp.RawData, byte(rapid.IntRange(0, 255).Draw(rt, "extraByte")))
		case 2:
			tp.RawData, tp.FloatData, tp.Int64Data = nil, nil, nil
		default:
			tp.FloatData = append(tp.FloatData, 1, 2, 3)
		}
	case "init-fields":
		tp := g.Initializer[rapid.IntRange(0, len(g.Initializer)-1).Draw(rt, "init")]
		n := rapid.IntRange(0, 5).Draw(rt, "count")
		switch rapid.IntRange(0, 4).Draw(rt, "field") {
		case 0:
			tp.Int32Data = make([]int32, n)
		case 1:
			tp.Uint64Data = make([]uint64, n)
		case 2:
			tp.DoubleData = make([]float64, n)
		case 3:
			tp.StringData = [][]byte{[]byte("x")}
		default:
			tp.Int64Data = make([]int64, n)
		}
	}
	return k
}

func mutateBytes(rt *rapid.T, b []byte) []byte {
	out := append([]byte{}, b...)
	n := rapid.IntRange(1, 4).Draw(rt, "nMutations")
	for i := 0; i < n && len(out) > 0; i++ {
		p := rapid.IntRange(0, len(out)-1).Draw(rt, "pos")
		switch rapid.SampledFrom([]int{0, 0, 0, 0, 1, 1, 1, 2, 3, 4}).Draw(rt, "mutation") {
		case 0:
			out[p] ^= 1 << uint(rapid.IntRange(0, 7).Draw(rt, "bit"))
		case 1:
			out[p] = byte(rapid.SampledFrom([]int{0, 1, 0x7f, 0x80, 0xff, 0x0a, 0x12}).Draw(rt, "byte"))
		case 2:
			out = append(out[:p], out[p+1:]...)
		case 3:
			ins := []byte{byte(rapid.IntRange(0, 255).Draw(rt, "ins"))}
			out = append(out[:p], append(ins, out[p:]...)...)
		default:
			q := rapid.IntRange(0, len(out)-1).Draw(rt, "pos2")
			if q < p {
				p, q = q, p
			}
			out = append(out[:p], out[q:]...)
		}
	}
	return out
}

func c18Seeds() map[string][]byte {
	out := map[string][]byte{}
	for n, sm := range sampleModels() {
		if n != "ndm" {
			out[n] = sm.bytes
		}
	}
	return out
}

func TestC18(t *testing.T) {
	ev.Begin("C18",
		"(a) exhaustive: every prefix of the sample models mlp (567 B), gru (1194 B) and scaler (214 B); (b) rapid structured: generated valid models and the sample models with one or more fields perturbed (opset list: none, versions -1..25, several imports; initializer dims / data_type / payload length / typed fields; value-infos; node op_type and wiring); (c) rapid byte-level mutations (flip, set, delete, insert, cut) of marshalled valid models; (d) rapid: a loadable generated model with one node's op_type replaced by a name outside GetOpNames, run with conforming inputs; (e) thorough only: native coverage-guided fuzzing of NewModelFromBytes with the same oracle. "+
			"Non-trivial = the bytes parse as a ModelProto with at least one initializer or node and differ from every seed. Distinct = the byte string.",
		"oracle: no panic, never (nil, nil); parsed model with highest opset != 13 must give ErrUnsupportedOpsetVersion unless the model is unloadable even with the opset forced to 13; an unknown operator type must make Run fail with ErrUnsupportedOperator")
	defer reportKnownFindings("C18")

	if p := os.Getenv("VERIF_REPLAY_CASE"); p != "" {
		b, err := os.ReadFile(p)
		if err != nil {
			t.Fatalf("VERIF-INCONCLUSIVE cannot read replay case: %v", err)
		}
		v, cls := c18Oracle(b)
		ev.Case("replay", fmt.Sprintf("%x", hash64(string(b))), true, cls)
		if v != "" {
			t.Fatalf("C18 violated by the %d bytes of %s: %s", len(b), p, v)
		}
		return
	}

	seeds := c18Seeds()
	var seedNames []string
	for n := range seeds {
		seedNames = append(seedNames, n)
	}
	sort.Strings(seedNames)

	t.Run("truncations", func(t *testing.T) {
		if shard() != 0 {
			return
		}
		for _, n := range seedNames {
			b := seeds[n]
			for l := 0; l <= len(b); l++ {
				v, cls := c18Oracle(b[:l])
				ev.Case("truncations", fmt.Sprintf("%s[:%d]", n, l), l < len(b) && (cls != "unparseable" && cls != "parsed-empty"), cls)
				if v != "" {
					p := writeFailBytes("C18", b[:l])
					t.Fatalf("C18 violated by the first %d bytes of %s.onnx (%s): %s", l, n, p, v)
				}
			}
		}
		ev.Exhaustive("truncations", true)
	})

	check(t, "structured", 15000, 100000, func(rt *rapid.T) {
		var mp *onnx.ModelProto
		src := "generated"
		if rapid.IntRange(0, 3).Draw(rt, "fromSample") == 0 && len(seedNames) > 0 {
			src = rapid.SampledFrom(seedNames).Draw(rt, "seed")
			mp = &onnx.ModelProto{}
			if err := proto.Unmarshal(seeds[src], mp); err != nil {
				rt.Fatalf("harness: sample model does not parse")
			}
		} else {
			gg := genGraph(rt, ggOpts{maxNodes: 5, allOutputs: true})
			mp = gg.model(rt)
			if rapid.IntRange(0, 19).Draw(rt, "manyInitializers") == 0 {
				// far more weights than the sample models carry (the largest has 11)
				src = "generated-many-initializers"
				for i, n := 0, rapid.SampledFrom([]int{32, 33, 64, 65, 100, 200}).Draw(rt, "nInit"); i < n; i++ {
					mp.Graph.Initializer = append(mp.Graph.Initializer, encodeTensor(fmt.Sprintf("extra%d", i), []int{2}, []float32{float32(i), 1}, i%2 == 0))
				}
			}
		}
		var kinds []string
		for i := rapid.IntRange(1, 3).Draw(rt, "nPerturbations"); i > 0; i-- {
			kinds = append(kinds, perturbModel(rt, mp))
		}
		b, err := proto.Marshal(mp)
		if err != nil {
			rt.Skip("perturbed model does not marshal")
		}
		v, cls := c18Oracle(b)
		cl := []string{cls, "source-" + src}
		for _, k := range kinds {
			cl = append(cl, "perturb-"+k)
		}
		ev.Case("structured", fmt.Sprintf("%s %v #%x", src, kinds, hash64(string(b))), cls != "unparseable" && cls != "parsed-empty", cl...)
		if v != "" {
			rt.Fatalf("C18 violated by %s model perturbed with %v: %s", src, kinds, v)
		}
	})

	check(t, "many-initializers-load", 150, 1500, func(rt *rapid.T) {
		gg := genGraph(rt, ggOpts{maxNodes: 3, allOutputs: true})
		mp := gg.model(rt)
		n := rapid.SampledFrom([]int{31, 32, 33, 63, 64, 65, 100, 200, 500}).Draw(rt, "nInit")
		for i := 0; i < n; i++ {
			mp.Graph.Initializer = append(mp.Graph.Initializer, encodeTensor(fmt.Sprintf("extra%d", i), []int{2}, []float32{float32(i), 1}, i%2 == 0))
		}
		b := marshalModel(mp)
		ev.Case("many-initializers-load", fmt.Sprintf("%d extra initializers on %v", n, gg), true, fmt.Sprintf("n=%d", n))
		v, _ := c18Oracle(b)
		if v != "" {
			rt.Fatalf("C18 violated by a valid model with %d initializers: %s", n, v)
		}
		if lr := loadBytes(b); lr.err != nil {
			rt.Fatalf("C18 violated: a valid model with %d initializers is refused: %v", n, lr.err)
		}
	})

	check(t, "byte-mutations", 15000, 100000, func(rt *rapid.T) {
		var b []byte
		if rapid.Bool().Draw(rt, "fromSample") && len(seedNames) > 0 {
			b = seeds[rapid.SampledFrom(seedNames).Draw(rt, "seed")]
		} else {
			gg := genGraph(rt, ggOpts{maxNodes: 4, allOutputs: true})
			b = marshalModel(gg.model(rt))
		}
		m := mutateBytes(rt, b)
		v, cls := c18Oracle(m)
		ev.Case("byte-mutations", fmt.Sprintf("%x", hash64(string(m))), cls != "unparseable" && cls != "parsed-empty", cls)
		if v != "" {
			p := writeFailBytes("C18", m)
			rt.Fatalf("C18 violated by %d mutated bytes (%s): %s", len(m), p, v)
		}
	})

	check(t, "unknown-operator", 5000, 30000, func(rt *rapid.T) {
		gg := genGraph(rt, ggOpts{maxNodes: 6, allOutputs: true})
		mp := gg.model(rt)
		feed := gg.feed(rt, gg.batchN)
		// only graphs that run cleanly are used, so that the replaced node is reached
		ok := loadBytes(marshalModel(mp))
		if ok.err != nil || ok.panicked {
			rt.Fatalf("C18: generated model does not load: %v", ok.err)
		}
		if r := runModel(ok.m, cloneFeed(feed)); r.err != nil || r.panicked {
			ev.Class("unknown-operator", "skipped-original-fails")
			return
		}
		names := opset13.GetOpNames()
		known := map[string]bool{}
		for _, n := range names {
			known[n] = true
		}
		i := rapid.IntRange(0, len(mp.Graph.Node)-1).Draw(rt, "node")
		// optionally make the chosen node a dead branch: none of its results is a graph output or
		// read by another node (the operator type must still be refused, not skipped)
		dead := false
		if rapid.Bool().Draw(rt, "deadBranch") {
			consumed := false
			for _, n := range mp.Graph.Node {
				for _, in := range n.Input {
					for _, o := range mp.Graph.Node[i].Output {
						if in != "" && in == o {
							consumed = true
						}
					}
				}
			}
			if !consumed {
				var keep []*onnx.ValueInfoProto
				for _, vi := range mp.Graph.Output {
					mine := false
					for _, o := range mp.Graph.Node[i].Output {
						if vi.Name == o {
							mine = true
						}
					}
					if !mine {
						keep = append(keep, vi)
					}
				}
				if len(keep) > 0 {
					mp.Graph.Output = keep
					dead = true
				}
			}
		}
		orig := mp.Graph.Node[i].OpType
		if dead && rapid.Bool().Draw(rt, "noNamedOutputs") {
			// a node may also declare no outputs at all, or only skipped ("") ones
			if rapid.Bool().Draw(rt, "emptyNames") {
				for k := range mp.Graph.Node[i].Output {
					mp.Graph.Node[i].Output[k] = ""
				}
			} else {
				mp.Graph.Node[i].Output = nil
			}
		}
		name := rapid.SampledFrom([]string{"", "Identity", "Erf", "Dropout", "LeakyRelu", "relu", "RELU", orig + "V2", "ai.onnx." + orig, " " + orig}).Draw(rt, "unknown")
		if known[name] {
			return
		}
		mp.Graph.Node[i].OpType = name
		lr := loadBytes(marshalModel(mp))
		ev.Case("unknown-operator", fmt.Sprintf("node %d %s -> %q in %v", i, orig, name, gg), true, "position-"+fmt.Sprint(min(i, 3)), fmt.Sprintf("dead-branch-%v", dead))
		if lr.panicked {
			rt.Fatalf("C18 violated: loading a model with operator type %q panics: %v", name, lr.panicVal)
		}
		if lr.err != nil {
			if errors.Is(lr.err, ops.ErrUnsupportedOperator) {
				return // refusing at load is stricter than required
			}
			rt.Fatalf("C18 violated: a model with operator type %q fails to load with %v", name, lr.err)
		}
		rr := runModel(lr.m, cloneFeed(feed))
		if rr.panicked {
			rt.Fatalf("C18 violated: Run of a graph with operator type %q panics: %v", name, rr.panicVal)
		}
		if rr.err == nil {
			rt.Fatalf("C18 violated: Run of a graph whose node %d has the unimplemented operator type %q returned a result", i, name)
		}
		if !errors.Is(rr.err, ops.ErrUnsupportedOperator) {
			rt.Fatalf("C18 violated: Run of a graph with operator type %q failed with %q instead of the unsupported-operator error", name, rr.err)
		}
	})
}

func cloneFeed(f gonnx.Tensors) gonnx.Tensors {
	out := gonnx.Tensors{}
	for k, v := range f {
		out[k] = cloneT(v)
	}
	return out
}

// writeFailBytes stores a failing byte string as a replay file.
func writeFailBytes(property string, b []byte) string {
	dir := os.Getenv("VERIF_FAIL_DIR")
	if dir == "" {
		dir = os.TempDir()
	}
	p := fmt.Sprintf("%s/%s-case-%x.json", dir, property, hash64(string(b)))
	// stored raw; the ".json" suffix only selects the VERIF_REPLAY_CASE replay path of the driver
	_ = os.WriteFile(p, b, 0o644)
	fmt.Printf("VERIF-FAILCASE %s\n", p)
	return p
}

// FuzzC18 is the native coverage-guided target (thorough tier only).
func FuzzC18(f *testing.F) {
	for _, b := range c18Seeds() {
		f.Add(b)
	}
	// hostile constants: payload length off by one, negative varint dims, huge dims
	tp := encodeTensor("w", []int{2, 2}, []float32{1, 2, 3, 4}, false)
	tp.RawData = tp.RawData[:15]
	for _, dims := range [][]int64{{2, 2}, {-1}, {1 << 62, 1 << 62}, {0}, {3}, {-2, -2}, {-4, -1}, {-1, -1, 4}, {0, -1}, {3, 0, -2}, {1 << 32, 1 << 32}, {math.MaxInt64, math.MaxInt64}} {
		t2 := proto.Clone(tp).(*onnx.TensorProto)
		t2.Dims = dims
		g := &onnx.GraphProto{Initializer: []*onnx.TensorProto{t2}}
		f.Add(marshalModel(mkModel(g, 13)))
		f.Add(marshalModel(mkModel(g, 12)))
		t3 := proto.Clone(t2).(*onnx.TensorProto)
		t3.RawData = nil
		f.Add(marshalModel(mkModel(&onnx.GraphProto{Initializer: []*onnx.TensorProto{t3}}, 13)))
	}
	f.Fuzz(func(t *testing.T, b []byte) {
		if v, _ := c18Oracle(b); v != "" {
			t.Fatalf("C18 violated: %s", v)
		}
	})
}
