package harness

// NodeProto / ModelProto builders and the two observation levels (Operator API, single-node model
// loaded from marshalled bytes), all under recover().

import (
	"encoding/binary"
	"fmt"
	"math"
	"pgregory.net/rapid"
	"reflect"

	"github.com/advancedclimatesystems/gonnx"
	"github.com/advancedclimatesystems/gonnx/onnx"
	"github.com/advancedclimatesystems/gonnx/ops"
	"github.com/advancedclimatesystems/gonnx/ops/opset13"
	"google.golang.org/protobuf/proto"
	"gorgonia.org/tensor"
)

func attrI(name string, v int64) *onnx.AttributeProto {
	return &onnx.AttributeProto{Name: name, Type: onnx.AttributeProto_INT, I: v}
}
func attrInts(name string, v ...int64) *onnx.AttributeProto {
	return &onnx.AttributeProto{Name: name, Type: onnx.AttributeProto_INTS, Ints: v}
}
func attrF(name string, v float32) *onnx.AttributeProto {
	return &onnx.AttributeProto{Name: name, Type: onnx.AttributeProto_FLOAT, F: v}
}
func attrFs(name string, v ...float32) *onnx.AttributeProto {
	return &onnx.AttributeProto{Name: name, Type: onnx.AttributeProto_FLOATS, Floats: v}
}
func attrS(name, v string) *onnx.AttributeProto {
	return &onnx.AttributeProto{Name: name, Type: onnx.AttributeProto_STRING, S: []byte(v)}
}
func attrStrs(name string, v ...string) *onnx.AttributeProto {
	bs := make([][]byte, len(v))
	for i, s := range v {
		bs[i] = []byte(s)
	}
	return &onnx.AttributeProto{Name: name, Type: onnx.AttributeProto_STRINGS, Strings: bs}
}
func attrT(name string, tp *onnx.TensorProto) *onnx.AttributeProto {
	return &onnx.AttributeProto{Name: name, Type: onnx.AttributeProto_TENSOR, T: tp}
}

func mkNode(opType string, ins, outs []string, attrs ...*onnx.AttributeProto) *onnx.NodeProto {
	var as []*onnx.AttributeProto
	for _, a := range attrs {
		if a != nil {
			as = append(as, a)
		}
	}
	return &onnx.NodeProto{OpType: opType, Input: ins, Output: outs, Attribute: as}
}

func descNode(n *onnx.NodeProto) string {
	s := n.OpType + "{"
	for i, a := range n.Attribute {
		if i > 0 {
			s += ","
		}
		switch a.Type {
		case onnx.AttributeProto_INT:
			s += fmt.Sprintf("%s=%d", a.Name, a.I)
		case onnx.AttributeProto_INTS:
			s += fmt.Sprintf("%s=%v", a.Name, a.Ints)
		case onnx.AttributeProto_FLOAT:
			s += fmt.Sprintf("%s=%v", a.Name, a.F)
		case onnx.AttributeProto_FLOATS:
			s += fmt.Sprintf("%s=%v", a.Name, a.Floats)
		case onnx.AttributeProto_STRING:
			s += fmt.Sprintf("%s=%q", a.Name, a.S)
		case onnx.AttributeProto_STRINGS:
			s += fmt.Sprintf("%s=%q", a.Name, a.Strings)
		case onnx.AttributeProto_TENSOR:
			s += fmt.Sprintf("%s=T(dt=%d,dims=%v)", a.Name, a.T.GetDataType(), a.T.GetDims())
		default:
			s += fmt.Sprintf("%s=?%v", a.Name, a.Type)
		}
	}
	return s + "}"
}

// opResult is the outcome of one operator invocation.
type opResult struct {
	outs     []tensor.Tensor
	err      error
	panicked bool
	panicVal any
	stage    string // where the error/panic happened: lookup, init, validate, apply
}

func (r opResult) ok() bool      { return r.err == nil && !r.panicked }
func (r opResult) refused() bool { return r.err != nil && !r.panicked }
func (r opResult) String() string {
	switch {
	case r.panicked:
		return fmt.Sprintf("PANIC@%s: %v", r.stage, r.panicVal)
	case r.err != nil:
		return fmt.Sprintf("error@%s: %v", r.stage, r.err)
	}
	s := "ok:"
	for _, o := range r.outs {
		s += " " + descT(o)
	}
	return s
}

// runOp drives a fresh operator through the Operator API exactly as Model.applyOp does.
func runOp(opType string, node *onnx.NodeProto, inputs []tensor.Tensor) (res opResult) {
	defer func() {
		if r := recover(); r != nil {
			res.panicked, res.panicVal = true, r
		}
	}()
	res.stage = "lookup"
	op, err := opset13.GetOperator(opType)
	if err != nil {
		res.err = err
		return
	}
	res.stage = "init"
	if err = op.Init(node); err != nil {
		res.err = err
		return
	}
	res.stage = "validate"
	ins, err := op.ValidateInputs(inputs)
	if err != nil {
		res.err = err
		return
	}
	res.stage = "apply"
	outs, err := op.Apply(ins)
	if err != nil {
		res.err = err
		return
	}
	res.outs = outs
	return
}

// ---------------------------------------------------------------------------------------------
// TensorProto encoding (the harness's own encoder; raw little-endian)

var onnxTypeOf = map[tensor.Dtype]int32{
	tensor.Float32: 1, tensor.Uint8: 2, tensor.Int8: 3, tensor.Uint16: 4, tensor.Int16: 5,
	tensor.Int32: 6, tensor.Int64: 7, tensor.Bool: 9, tensor.Float64: 11, tensor.Uint32: 12,
	tensor.Uint64: 13,
}

func elemSize(dt tensor.Dtype) int {
	switch dt {
	case tensor.Bool, tensor.Int8, tensor.Uint8:
		return 1
	case tensor.Int16, tensor.Uint16:
		return 2
	case tensor.Int32, tensor.Uint32, tensor.Float32:
		return 4
	}
	return 8
}

func rawBytes(e reflect.Value) []byte {
	var out []byte
	for i := 0; i < e.Len(); i++ {
		v := e.Index(i)
		switch v.Kind() {
		case reflect.Float32:
			out = binary.LittleEndian.AppendUint32(out, math.Float32bits(v.Interface().(float32)))
		case reflect.Float64:
			out = binary.LittleEndian.AppendUint64(out, math.Float64bits(v.Float()))
		case reflect.Int8:
			out = append(out, byte(v.Int()))
		case reflect.Uint8:
			out = append(out, byte(v.Uint()))
		case reflect.Int16:
			out = binary.LittleEndian.AppendUint16(out, uint16(v.Int()))
		case reflect.Uint16:
			out = binary.LittleEndian.AppendUint16(out, uint16(v.Uint()))
		case reflect.Int32:
			out = binary.LittleEndian.AppendUint32(out, uint32(v.Int()))
		case reflect.Uint32:
			out = binary.LittleEndian.AppendUint32(out, uint32(v.Uint()))
		case reflect.Int64:
			out = binary.LittleEndian.AppendUint64(out, uint64(v.Int()))
		case reflect.Uint64:
			out = binary.LittleEndian.AppendUint64(out, v.Uint())
		case reflect.Bool:
			if v.Bool() {
				out = append(out, 1)
			} else {
				out = append(out, 0)
			}
		default:
			panic("rawBytes: " + v.Kind().String())
		}
	}
	return out
}

// protoOf encodes a tensor as a raw-data TensorProto.
func protoOf(name string, t tensor.Tensor) *onnx.TensorProto {
	dt, ok := onnxTypeOf[t.Dtype()]
	if !ok {
		panic("protoOf: dtype " + t.Dtype().String())
	}
	dims := make([]int64, len(t.Shape()))
	for i, d := range t.Shape() {
		dims[i] = int64(d)
	}
	return &onnx.TensorProto{Name: name, DataType: dt, Dims: dims, RawData: rawBytes(elems(t))}
}

// valueInfo builds a ValueInfoProto; each dim is an int (fixed), a string (symbolic) or nil
// (unspecified). dims == nil (no arguments) gives a rank-0 declaration.
func valueInfo(name string, elemType int32, dims ...any) *onnx.ValueInfoProto {
	sh := &onnx.TensorShapeProto{}
	for _, d := range dims {
		switch v := d.(type) {
		case int:
			sh.Dim = append(sh.Dim, &onnx.TensorShapeProto_Dimension{Value: &onnx.TensorShapeProto_Dimension_DimValue{DimValue: int64(v)}})
		case string:
			sh.Dim = append(sh.Dim, &onnx.TensorShapeProto_Dimension{Value: &onnx.TensorShapeProto_Dimension_DimParam{DimParam: v}})
		default:
			sh.Dim = append(sh.Dim, &onnx.TensorShapeProto_Dimension{})
		}
	}
	return &onnx.ValueInfoProto{Name: name, Type: &onnx.TypeProto{Value: &onnx.TypeProto_TensorType{
		TensorType: &onnx.TypeProto_Tensor{ElemType: elemType, Shape: sh}}}}
}

// valueInfoFor declares a value with the fixed shape of t.
func valueInfoFor(name string, t tensor.Tensor) *onnx.ValueInfoProto {
	dims := make([]any, len(t.Shape()))
	for i, d := range t.Shape() {
		dims[i] = d
	}
	return valueInfo(name, onnxTypeOf[t.Dtype()], dims...)
}

// valueInfoNoShape declares an output without shape information.
func valueInfoNoShape(name string) *onnx.ValueInfoProto {
	return &onnx.ValueInfoProto{Name: name}
}

func mkModel(g *onnx.GraphProto, opset int64) *onnx.ModelProto {
	return &onnx.ModelProto{IrVersion: 7, Graph: g, OpsetImport: []*onnx.OperatorSetIdProto{{Version: opset}}}
}

type loadResult struct {
	m        *gonnx.Model
	err      error
	panicked bool
	panicVal any
}

func loadBytes(b []byte) (res loadResult) {
	defer func() {
		if r := recover(); r != nil {
			res.panicked, res.panicVal = true, r
		}
	}()
	res.m, res.err = gonnx.NewModelFromBytes(b)
	return
}

func marshalModel(mp *onnx.ModelProto) []byte {
	b, err := proto.Marshal(mp)
	if err != nil {
		panic(err)
	}
	return b
}

type runResult struct {
	outs     gonnx.Tensors
	err      error
	panicked bool
	panicVal any
}

func (r runResult) String() string {
	switch {
	case r.panicked:
		return fmt.Sprintf("PANIC: %v", r.panicVal)
	case r.err != nil:
		return fmt.Sprintf("error: %v", r.err)
	}
	return fmt.Sprintf("ok(%d outputs)", len(r.outs))
}

func runModel(m *gonnx.Model, in gonnx.Tensors) (res runResult) {
	defer func() {
		if r := recover(); r != nil {
			res.panicked, res.panicVal = true, r
		}
	}()
	res.outs, res.err = m.Run(in)
	return
}

// runSingleNodeModel executes node as a one-node model loaded from bytes. inputs[i] == nil is
// spelled as the empty input name. Graph inputs are declared with the tensors' fixed shapes.
// nOut is the number of outputs to bind and declare.
func runSingleNodeModel(node *onnx.NodeProto, inputs []tensor.Tensor, nOut int) (res opResult) {
	n := proto.Clone(node).(*onnx.NodeProto)
	n.Input = nil
	g := &onnx.GraphProto{}
	feed := gonnx.Tensors{}
	for i, t := range inputs {
		if t == nil {
			n.Input = append(n.Input, "")
			continue
		}
		name := fmt.Sprintf("in%d", i)
		n.Input = append(n.Input, name)
		if _, ok := onnxTypeOf[t.Dtype()]; !ok {
			res.err = fmt.Errorf("harness: dtype %v not encodable", t.Dtype())
			res.stage = "harness"
			return
		}
		g.Input = append(g.Input, valueInfoFor(name, t))
		feed[name] = t
	}
	// drop trailing absent inputs half of the time is the caller's business; keep as given
	n.Output = nil
	for i := 0; i < nOut; i++ {
		name := fmt.Sprintf("out%d", i)
		n.Output = append(n.Output, name)
		g.Output = append(g.Output, valueInfoNoShape(name))
	}
	g.Node = []*onnx.NodeProto{n}
	lr := loadBytes(marshalModel(mkModel(g, 13)))
	if lr.panicked {
		return opResult{panicked: true, panicVal: lr.panicVal, stage: "load"}
	}
	if lr.err != nil {
		return opResult{err: lr.err, stage: "load"}
	}
	rr := runModel(lr.m, feed)
	if rr.panicked {
		return opResult{panicked: true, panicVal: rr.panicVal, stage: "run"}
	}
	if rr.err != nil {
		return opResult{err: rr.err, stage: "run"}
	}
	for i := 0; i < nOut; i++ {
		res.outs = append(res.outs, rr.outs[fmt.Sprintf("out%d", i)])
	}
	return
}

// agreeLevels: the operator-level and model-level outcomes must be the same: same code path, but
// gonum's assembly dot-product kernels round differently depending on operand alignment, so float
// elements are compared up to rounding (1e-5 relative); everything else exactly.
func agreeLevels(a, b opResult) string {
	if a.panicked != b.panicked {
		return fmt.Sprintf("operator level %v, model level %v", a, b)
	}
	if (a.err == nil) != (b.err == nil) {
		return fmt.Sprintf("operator level %v, model level %v", a, b)
	}
	if !a.ok() {
		return ""
	}
	if len(a.outs) != len(b.outs) {
		return fmt.Sprintf("output count %d vs %d", len(a.outs), len(b.outs))
	}
	for i := range a.outs {
		if d := approxSame(a.outs[i], b.outs[i], 1e-5); d != "" {
			return fmt.Sprintf("output %d: %s", i, d)
		}
	}
	return ""
}

// reuseDifferential: an operator instance that has already served one request (first) must answer
// another request (second) exactly like a fresh instance initialised from the same node does.
// Returns a description of the difference or "".
func reuseDifferential(opType string, node *onnx.NodeProto, first, second []tensor.Tensor) string {
	fresh := runOp(opType, node, cloneTs(second))
	op, err := opset13.GetOperator(opType)
	if err != nil || op.Init(node) != nil {
		return ""
	}
	apply := func(ins []tensor.Tensor) (r opResult) {
		defer func() {
			if p := recover(); p != nil {
				r.panicked, r.panicVal = true, p
			}
		}()
		v, err := op.ValidateInputs(ins)
		if err == nil {
			v, err = op.Apply(v)
		}
		r.outs, r.err = v, err
		return
	}
	_ = apply(cloneTs(first))
	reused := apply(cloneTs(second))
	if fresh.panicked != reused.panicked || (fresh.err == nil) != (reused.err == nil) {
		return fmt.Sprintf("fresh instance: %v; instance that served another request before: %v", fresh, reused)
	}
	if !fresh.ok() {
		return ""
	}
	if len(fresh.outs) != len(reused.outs) {
		return "output count differs"
	}
	for i := range fresh.outs {
		if d := approxSame(reused.outs[i], fresh.outs[i], 1e-5); d != "" {
			return fmt.Sprintf("output %d of the instance that served another request before differs from a fresh instance: %s", i, d)
		}
	}
	return ""
}

// reuseSharedParams: the situation of a node whose later inputs are weights of a Model. One operator
// instance and the very same tensor objects for the inputs 1.. first serve another data tensor
// (otherData in place of input 0), then the request ins; the answer must be the one a fresh
// instance gives for fresh copies of ins. Returns a description of the difference or "".
func reuseSharedParams(opType string, node *onnx.NodeProto, otherData tensor.Tensor, ins []tensor.Tensor) string {
	if len(ins) < 2 {
		return ""
	}
	fresh := runOp(opType, node, cloneTs(ins))
	op, err := opset13.GetOperator(opType)
	if err != nil || op.Init(node) != nil {
		return ""
	}
	apply := func(in []tensor.Tensor) (r opResult) {
		defer func() {
			if p := recover(); p != nil {
				r.panicked, r.panicVal = true, p
			}
		}()
		v, err := op.ValidateInputs(in)
		if err == nil {
			v, err = op.Apply(v)
		}
		r.outs, r.err = v, err
		return
	}
	shared := cloneTs(ins)
	_ = apply(append([]tensor.Tensor{otherData}, shared[1:]...))
	reused := apply(append([]tensor.Tensor{cloneT(ins[0])}, shared[1:]...))
	if fresh.panicked != reused.panicked || (fresh.err == nil) != (reused.err == nil) {
		return fmt.Sprintf("fresh instance and tensors: %v; instance and parameter tensors that served a data tensor of shape %v before: %v", fresh, otherData.Shape(), reused)
	}
	if !fresh.ok() {
		return ""
	}
	if len(fresh.outs) != len(reused.outs) {
		return "output count differs"
	}
	for i := range fresh.outs {
		if d := approxSame(reused.outs[i], fresh.outs[i], 1e-5); d != "" {
			return fmt.Sprintf("output %d differs from a fresh instance after the instance and its parameter tensors served a data tensor of shape %v: %s", i, otherData.Shape(), d)
		}
	}
	return ""
}

// otherDataLike: a tensor of t's element type whose shape is t's with one axis longer by 1..2.
func otherDataLike(rt *rapid.T, t tensor.Tensor) (tensor.Tensor, bool) {
	shape := cloneInts(t.Shape())
	if len(shape) == 0 || prod(shape) == 0 || prod(shape) > 20000 {
		return nil, false
	}
	if _, ok := t.Data().([]string); ok {
		return nil, false
	}
	a := rapid.IntRange(0, len(shape)-1).Draw(rt, "otherDataAxis")
	shape[a] += rapid.IntRange(1, 2).Draw(rt, "otherDataPlus")
	return rangeT(t.Dtype(), shape), true
}

func getOperator(name string) (ops.Operator, error) { return opset13.GetOperator(name) }
