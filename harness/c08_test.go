package harness

// C08 — Transpose, Concat, Slice, Gather, Expand select exactly the ONNX-indexed data.
// Reference: every operator is described as "output shape + for every output element the flat
// index of the source element" (sources numbered when there are several), over flat arrays.

import (
	"fmt"
	"math"
	"testing"

	"github.com/advancedclimatesystems/gonnx/onnx"
	"github.com/advancedclimatesystems/gonnx/ops"
	"gorgonia.org/tensor"
	"pgregory.net/rapid"
)

// idxRef is a reference result: shape and, per output element, (source number, flat index).
type idxRef struct {
	shape []int
	src   []int
	idx   []int
}

func (r idxRef) expectBits(sources []tensor.Tensor) []uint64 {
	all := make([][]uint64, len(sources))
	for i, s := range sources {
		all[i] = bitsAll(s)
	}
	out := make([]uint64, len(r.idx))
	for k := range r.idx {
		out[k] = all[r.src[k]][r.idx[k]]
	}
	return out
}

func refTranspose(shape, perm []int) idxRef {
	r := idxRef{shape: make([]int, len(shape))}
	for i, p := range perm {
		r.shape[i] = shape[p]
	}
	n := prod(shape)
	in := make([]int, len(shape))
	for k := 0; k < n; k++ {
		o := unravel(k, r.shape)
		for i, p := range perm {
			in[p] = o[i]
		}
		r.src = append(r.src, 0)
		r.idx = append(r.idx, ravel(in, shape))
	}
	return r
}

func refConcat(shapes [][]int, axis int) idxRef {
	r := idxRef{shape: cloneInts(shapes[0])}
	r.shape[axis] = 0
	for _, s := range shapes {
		r.shape[axis] += s[axis]
	}
	n := prod(r.shape)
	for k := 0; k < n; k++ {
		o := unravel(k, r.shape)
		a := o[axis]
		for si, s := range shapes {
			if a < s[axis] {
				o[axis] = a
				r.src = append(r.src, si)
				r.idx = append(r.idx, ravel(o, s))
				break
			}
			a -= s[axis]
		}
	}
	return r
}

// onnxSliceAxis: the list of selected indices along one axis per the ONNX Slice rules.
func onnxSliceAxis(dim int, start, end, step int64) []int {
	d := int64(dim)
	if start < 0 {
		start += d
	}
	if end < 0 {
		end += d
	}
	clamp := func(v, lo, hi int64) int64 {
		if v < lo {
			return lo
		}
		if v > hi {
			return hi
		}
		return v
	}
	var out []int
	if step > 0 {
		start, end = clamp(start, 0, d), clamp(end, 0, d)
		for i := start; i < end; i += step {
			out = append(out, int(i))
			if step > d {
				break
			}
		}
	} else {
		start, end = clamp(start, 0, d-1), clamp(end, -1, d-1)
		for i := start; i > end; i += step {
			out = append(out, int(i))
			if -step > d {
				break
			}
		}
	}
	return out
}

// refSelect: result of selecting, per axis, a list of indices (outer product).
func refSelect(shape []int, lists [][]int) idxRef {
	r := idxRef{shape: make([]int, len(shape))}
	for a := range shape {
		r.shape[a] = len(lists[a])
	}
	n := prod(r.shape)
	in := make([]int, len(shape))
	for k := 0; k < n; k++ {
		o := unravel(k, r.shape)
		for a := range shape {
			in[a] = lists[a][o[a]]
		}
		r.src = append(r.src, 0)
		r.idx = append(r.idx, ravel(in, shape))
	}
	return r
}

func refGather(shape []int, axis int, ishape []int, indices []int) idxRef {
	r := idxRef{}
	r.shape = append(r.shape, shape[:axis]...)
	r.shape = append(r.shape, ishape...)
	r.shape = append(r.shape, shape[axis+1:]...)
	n := prod(r.shape)
	q := len(ishape)
	in := make([]int, len(shape))
	for k := 0; k < n; k++ {
		o := unravel(k, r.shape)
		copy(in[:axis], o[:axis])
		in[axis] = indices[ravel(o[axis:axis+q], ishape)]
		copy(in[axis+1:], o[axis+q:])
		r.src = append(r.src, 0)
		r.idx = append(r.idx, ravel(in, shape))
	}
	return r
}

func refExpand(shape, target []int) (idxRef, bool) {
	out, ok := bcastShape(shape, target)
	if !ok {
		return idxRef{}, false
	}
	r := idxRef{shape: out}
	n := prod(out)
	for k := 0; k < n; k++ {
		r.src = append(r.src, 0)
		r.idx = append(r.idx, bcastIndex(unravel(k, out), shape))
	}
	return r, true
}

type c08Case struct {
	op      string
	node    *onnx.NodeProto
	ins     []tensor.Tensor // all operator inputs (nil = absent optional)
	nData   int             // how many leading inputs are data sources
	valid   bool
	ref     idxRef
	feature string
	// Slice bookkeeping for the known-finding predicates
	slicedAxes []int
	steps      map[int]int64
	lists      [][]int
	empty      bool
}

func (c c08Case) String() string {
	s := descNode(c.node)
	for _, t := range c.ins {
		if t == nil {
			s += " nil"
		} else if len(s) < 400 {
			if isInt(t.Dtype()) && prod(t.Shape()) <= 8 {
				s += " " + descT(t)
			} else {
				s += fmt.Sprintf(" %v%v", t.Dtype(), t.Shape())
			}
		}
	}
	return fmt.Sprintf("%s valid=%v want=%v", s, c.valid, c.ref.shape)
}

func idxTensor(rt *rapid.T, shape []int, vals []int64) tensor.Tensor {
	if rapid.Bool().Draw(rt, "idx32") {
		v32 := make([]int32, len(vals))
		ok := true
		for i, v := range vals {
			if v > math.MaxInt32 || v < math.MinInt32 {
				ok = false
			}
			v32[i] = int32(v)
		}
		if ok {
			return mkT(shape, v32)
		}
	}
	return mkT(shape, vals)
}

func c08Gen(rt *rapid.T) c08Case {
	var c c08Case
	c.op = drawOp(rt, []string{"Transpose", "Concat", "Slice", "Slice", "Gather", "Expand"})
	dt := rapid.SampledFrom(ops.AllTypes).Draw(rt, "dtype")
	c.valid = true
	c.nData = 1
	switch c.op {
	case "Transpose":
		shape := genShape(1, 4, 5, 1500).Draw(rt, "shape")
		r := len(shape)
		perm := rapid.Permutation(seq(r)).Draw(rt, "perm")
		p64 := make([]int64, r)
		for i, p := range perm {
			p64[i] = int64(p)
		}
		switch rapid.IntRange(0, 7).Draw(rt, "invalid") {
		case 0:
			if r >= 2 {
				p64[0] = p64[1]
				c.valid, c.feature = false, "invalid-repeated"
			}
		case 1:
			p64 = append(p64, int64(r))
			c.valid, c.feature = false, "invalid-length"
		}
		c.node = mkNode("Transpose", nil, []string{"y"}, attrInts("perm", p64...))
		c.ins = []tensor.Tensor{rangeSpecialT(dt, shape, rapid.IntRange(0, 63).Draw(rt, "contents"))}
		if c.valid {
			c.ref = refTranspose(shape, perm)
			if r >= 3 {
				c.feature = "rank>=3"
			}
		}
	case "Concat":
		base := genShape(1, 4, 4, 600).Draw(rt, "shape")
		r := len(base)
		axis := rapid.IntRange(0, r-1).Draw(rt, "axis")
		k := rapid.IntRange(1, 4).Draw(rt, "nInputs")
		var shapes [][]int
		off := 0
		for i := 0; i < k; i++ {
			s := cloneInts(base)
			s[axis] = rapid.IntRange(1, 3).Draw(rt, "ext")
			shapes = append(shapes, s)
			// distinct contents per input
			o := off
			c.ins = append(c.ins, mkT(s, backingOf(dt, prod(s), func(j int) float64 { return float64(o + j) })))
			off += prod(s)
		}
		c.nData = k
		spelled := int64(axis)
		if rapid.Bool().Draw(rt, "negAxis") {
			spelled = int64(axis - r)
			c.feature = "negative-axis"
		}
		if k >= 3 {
			c.feature += ">=3-inputs"
		}
		if k >= 2 && rapid.IntRange(0, 7).Draw(rt, "invalid") == 0 {
			// mismatch on another axis (needs rank >= 2) or an out-of-range axis
			if r >= 2 && rapid.Bool().Draw(rt, "mismatchKind") {
				other := (axis + 1) % r
				s := cloneInts(shapes[k-1])
				s[other]++
				shapes[k-1] = s
				c.ins[k-1] = rangeT(dt, s)
				c.valid, c.feature = false, "invalid-shape-mismatch"
			} else {
				spelled = int64(r + rapid.IntRange(0, 2).Draw(rt, "oor"))
				c.valid, c.feature = false, "invalid-axis"
			}
		}
		c.node = mkNode("Concat", nil, []string{"y"}, attrI("axis", spelled))
		if c.valid {
			c.ref = refConcat(shapes, axis)
		}
	case "Slice":
		shape := genShape(1, 4, 6, 1500).Draw(rt, "shape")
		r := len(shape)
		naxes := rapid.IntRange(1, r).Draw(rt, "naxes")
		axes := rapid.Permutation(seq(r)).Draw(rt, "axesPerm")[:naxes]
		mode := rapid.IntRange(0, 4).Draw(rt, "mode") // 0,1: in what the library implements; 2,3: full ONNX domain; 4: exporter idioms x[a::k], x[:b:k], x[::-k]
		starts, ends, steps := make([]int64, naxes), make([]int64, naxes), make([]int64, naxes)
		c.steps = map[int]int64{}
		c.lists = make([][]int, r)
		for a := range c.lists {
			c.lists[a] = seq(shape[a])
		}
		anyNeg, anyClamp, anyStep, anyUnit := false, false, false, false
		for i, a := range axes {
			d := shape[a]
			if mode == 4 {
				// "to the end" is spelled with a sentinel by exporters
				k := int64(rapid.SampledFrom([]int{1, 2, 2, 3, 3, 4}).Draw(rt, "idiomStep"))
				if rapid.IntRange(0, 3).Draw(rt, "idiomReverse") == 0 {
					starts[i] = rapid.SampledFrom([]int64{-1, int64(d - 1), math.MaxInt64, math.MaxInt32}).Draw(rt, "idiomStartR")
					ends[i] = rapid.SampledFrom([]int64{math.MinInt64, math.MinInt32, -int64(d) - 1, math.MinInt64 + 1}).Draw(rt, "idiomEndR")
					steps[i] = -k
				} else {
					starts[i] = int64(rapid.IntRange(0, min(d-1, 3)).Draw(rt, "idiomStart"))
					ends[i] = rapid.SampledFrom([]int64{math.MaxInt64, math.MaxInt64, math.MaxInt32, math.MaxInt64 - 1, int64(d), int64(d) + 1}).Draw(rt, "idiomEnd")
					steps[i] = k
				}
			} else if mode < 2 {
				s := rapid.IntRange(0, d-1).Draw(rt, "start")
				e := rapid.IntRange(s+1, d).Draw(rt, "end")
				starts[i], ends[i] = int64(s), int64(e)
				steps[i] = int64(rapid.SampledFrom([]int{1, 1, 1, 2, 3}).Draw(rt, "step"))
			} else {
				pick := func(label string) int64 {
					if rapid.IntRange(0, 9).Draw(rt, label+"x") == 0 {
						return rapid.SampledFrom([]int64{math.MinInt64, math.MaxInt64, math.MaxInt32, math.MinInt32}).Draw(rt, label+"e")
					}
					return int64(rapid.IntRange(-d-2, d+2).Draw(rt, label))
				}
				starts[i], ends[i] = pick("start"), pick("end")
				steps[i] = int64(rapid.SampledFrom([]int{1, 1, 2, 3, -1, -2}).Draw(rt, "step"))
			}
			c.steps[a] = steps[i]
			c.lists[a] = onnxSliceAxis(d, starts[i], ends[i], steps[i])
			if starts[i] < 0 || ends[i] < 0 {
				anyNeg = true
			}
			if starts[i] > int64(d) || ends[i] > int64(d) || starts[i] < -int64(d) || ends[i] < -int64(d) {
				anyClamp = true
			}
			if steps[i] != 1 {
				anyStep = true
			}
			if len(c.lists[a]) == 1 {
				anyUnit = true
			}
			if len(c.lists[a]) == 0 {
				c.empty = true
			}
		}
		c.slicedAxes = axes
		spelledAxes := make([]int64, naxes)
		for i, a := range axes {
			spelledAxes[i] = int64(a)
			if rapid.IntRange(0, 3).Draw(rt, "negAxis") == 0 {
				spelledAxes[i] = int64(a - r)
				anyNeg = true
			}
		}
		c.ins = []tensor.Tensor{rangeSpecialT(dt, shape, rapid.IntRange(0, 63).Draw(rt, "contents")), idxTensor(rt, []int{naxes}, starts), idxTensor(rt, []int{naxes}, ends), nil, nil}
		natural := true
		for i, a := range axes {
			if a != i {
				natural = false
			}
		}
		if !(natural && rapid.Bool().Draw(rt, "axesAbsent")) || anyNeg {
			c.ins[3] = idxTensor(rt, []int{naxes}, spelledAxes)
		}
		if anyStep || rapid.Bool().Draw(rt, "stepsPresent") {
			c.ins[4] = idxTensor(rt, []int{naxes}, steps)
		}
		if c.ins[4] == nil && c.ins[3] == nil && rapid.Bool().Draw(rt, "trim") {
			c.ins = c.ins[:3]
		}
		c.node = mkNode("Slice", nil, []string{"y"})
		c.ref = refSelect(shape, c.lists)
		switch {
		case c.empty:
			c.feature = "empty-result"
		case anyNeg:
			c.feature = "negative"
		case anyClamp:
			c.feature = "clamped"
		case anyStep:
			c.feature = "step"
		case anyUnit:
			c.feature = "unit-extent"
		}
	case "Gather":
		shape := genShape(1, 4, 5, 1500).Draw(rt, "shape")
		r := len(shape)
		axis := rapid.IntRange(0, r-1).Draw(rt, "axis")
		ishape := genShape(0, 2, 3, 9).Draw(rt, "ishape")
		d := shape[axis]
		ni := prod(ishape)
		vals := make([]int64, ni)
		norm := make([]int, ni)
		anyNeg := false
		for i := range vals {
			v := rapid.IntRange(-d, d-1).Draw(rt, "index")
			vals[i] = int64(v)
			if v < 0 {
				anyNeg = true
				v += d
			}
			norm[i] = v
		}
		spelled := int64(axis)
		if rapid.Bool().Draw(rt, "negAxis") {
			spelled = int64(axis - r)
		}
		switch rapid.IntRange(0, 9).Draw(rt, "invalid") {
		case 0:
			vals[rapid.IntRange(0, ni-1).Draw(rt, "oorAt")] = int64(d + rapid.IntRange(0, 2).Draw(rt, "oor"))
			c.valid, c.feature = false, "invalid-index"
		case 1:
			vals[rapid.IntRange(0, ni-1).Draw(rt, "oorAt")] = int64(-d - 1 - rapid.IntRange(0, 2).Draw(rt, "oor"))
			c.valid, c.feature = false, "invalid-index"
		case 2:
			spelled = int64(r + rapid.IntRange(0, 2).Draw(rt, "oorAxis"))
			c.valid, c.feature = false, "invalid-axis"
		}
		if spelled == 0 && rapid.Bool().Draw(rt, "axisAbsent") {
			c.node = mkNode("Gather", nil, []string{"y"})
		} else {
			c.node = mkNode("Gather", nil, []string{"y"}, attrI("axis", spelled))
		}
		c.ins = []tensor.Tensor{rangeSpecialT(dt, shape, rapid.IntRange(0, 63).Draw(rt, "contents")), idxTensor(rt, ishape, vals)}
		if c.valid {
			c.ref = refGather(shape, axis, ishape, norm)
			if len(ishape) != 1 {
				c.feature = fmt.Sprintf("index-rank-%d", len(ishape))
			}
			if anyNeg {
				c.feature += "negative-index"
			}
		}
	case "Expand":
		p := genBroadcastPair(4, 4, 1500).Draw(rt, "pair")
		shape, target := p[0], p[1]
		if len(target) == 0 {
			target = []int{1}
		}
		if len(shape) == 0 && rapid.Bool().Draw(rt, "noRank0") {
			shape = []int{1}
		}
		if rapid.IntRange(0, 5).Draw(rt, "invalid") == 0 {
			var ok bool
			shape, target, ok = corruptPair(rt, shape, target)
			if ok {
				c.valid, c.feature = false, "invalid-incompatible"
			}
		}
		t64 := make([]int64, len(target))
		for i, d := range target {
			t64[i] = int64(d)
		}
		c.node = mkNode("Expand", nil, []string{"y"})
		c.ins = []tensor.Tensor{rangeSpecialT(dt, shape, rapid.IntRange(0, 63).Draw(rt, "contents")), mkT([]int{len(target)}, t64)}
		if c.valid {
			c.ref, _ = refExpand(shape, target)
			switch {
			case len(target) < len(shape):
				c.feature = "target-shorter"
			case len(target) > len(shape):
				c.feature = "target-longer"
			default:
				if !eqInts(c.ref.shape, target) {
					c.feature = "two-way"
				}
			}
		}
	}
	return c
}

func (c c08Case) inputs() []tensor.Tensor { return cloneTs(c.ins) }

// dropUnitAxes: the shape gorgonia produces for a slice result — sliced axes whose extent became 1
// are dropped and a single remaining element becomes a scalar.
func c08GorgoniaSliceShape(ref []int, sliced []int) []int {
	drop := map[int]bool{}
	for _, a := range sliced {
		if ref[a] == 1 {
			drop[a] = true
		}
	}
	out := []int{}
	for a, d := range ref {
		if !drop[a] {
			out = append(out, d)
		}
	}
	return out
}

func c08Judge(c c08Case, res opResult) string {
	isSlice := c.op == "Slice"
	negStep, negIndex := false, false
	for _, s := range c.steps {
		if s < 0 {
			negStep = true
		}
	}
	if isSlice && len(c.ins) >= 3 {
		for _, t := range c.ins[1:3] {
			for _, v := range f64s(t) {
				if v < 0 {
					negIndex = true
				}
			}
		}
	}
	if res.panicked {
		if isSlice && c.empty && kfAccept("KF-C08-slice-empty-result") {
			return ""
		}
		if isSlice && negStep && kfAccept("KF-C08-slice-negative-step-panic") {
			return ""
		}
		return "panic: " + fmt.Sprint(res.panicVal)
	}
	if !c.valid {
		if res.err == nil {
			if c.op == "Expand" && kfAccept("KF-C08-expand-left-aligned-unchecked") {
				return ""
			}
			if c.op != "Expand" {
				// malformed Transpose/Concat/Gather requests lie outside the property's quantifier
				// (permutations, in-range indices): only "no panic" is asserted for them
				ev.Class("C08", c.op+"-invalid-answered-with-tensor(not asserted)")
				return ""
			}
			return "incompatible Expand target answered with a tensor: " + res.String()
		}
		return ""
	}
	if res.err != nil {
		// "A request outside what the library implements is refused": the library implements every
		// permutation, concatenation, Gather and two-way Expand of the quantifier and every Slice
		// with non-negative starts and ends (of any size: clamped), positive steps and a non-empty
		// result; what it does not implement, and refuses, are negative starts or ends (counting
		// from the end), negative steps, and Slices selecting nothing. A refusal of anything else
		// takes back the first sentence of the statement.
		if isSlice && (negStep || c.empty || negIndex) {
			ev.Refused("C08-Slice-negative-index-or-step-or-empty")
			return ""
		}
		return "a request the statement covers and the library implements was refused: " + res.err.Error()
	}
	if len(res.outs) != 1 || res.outs[0] == nil {
		return "expected exactly one non-nil output"
	}
	out := res.outs[0]
	if isSlice && c.empty {
		// the ONNX result has no elements; the library cannot represent that, so anything but a
		// refusal is "other data"
		if kfAccept("KF-C08-slice-empty-result") {
			return ""
		}
		return "ONNX result is empty but a tensor came back: " + descT(out)
	}
	srcs := c.ins[:c.nData]
	if out.Dtype() != srcs[0].Dtype() {
		return fmt.Sprintf("dtype %v, want %v", out.Dtype(), srcs[0].Dtype())
	}
	want := c.ref.expectBits(srcs)
	got := bitsAll(out)
	sameData := func(a, b []uint64) bool {
		if len(a) != len(b) {
			return false
		}
		for i := range a {
			if a[i] != b[i] {
				return false
			}
		}
		return true
	}
	if eqInts(out.Shape(), c.ref.shape) && sameData(got, want) {
		return ""
	}
	if isSlice {
		// (i) same elements, sliced unit axes dropped
		if sameData(got, want) && (eqInts(out.Shape(), c08GorgoniaSliceShape(c.ref.shape, c.slicedAxes)) || (len(want) == 1 && len(out.Shape()) == 0)) && kfAccept("KF-C08-slice-drops-unit-axes") {
			return ""
		}
		// (ii) step > 1 on data axis 0: gorgonia takes floor instead of ceil for the extent
		if st, ok := c.steps[0]; ok && st > 1 && len(c.lists[0]) >= 1 {
			alt := make([][]int, len(c.lists))
			copy(alt, c.lists)
			alt[0] = c.lists[0][:len(c.lists[0])-1]
			if len(alt[0]) > 0 {
				ar := refSelect(c.ins[0].Shape(), alt)
				aw := ar.expectBits(srcs)
				if sameData(got, aw) && (eqInts(out.Shape(), ar.shape) || eqInts(out.Shape(), c08GorgoniaSliceShape(ar.shape, c.slicedAxes)) || (len(aw) == 1 && len(out.Shape()) == 0)) && kfAccept("KF-C08-slice-axis0-step-truncated") {
					return ""
				}
			} else if kfAccept("KF-C08-slice-axis0-step-truncated") {
				return "" // truncated to nothing: whatever comes back is the same defect
			}
		}
	}
	if c.op == "Expand" && c.feature != "" && kfAccept("KF-C08-expand-left-aligned-unchecked") {
		return ""
	}
	if !eqInts(out.Shape(), c.ref.shape) {
		return fmt.Sprintf("shape %v, want %v", out.Shape(), c.ref.shape)
	}
	for i := range want {
		if i >= len(got) || got[i] != want[i] {
			return fmt.Sprintf("element %d differs from the ONNX-indexed source element (source %d, flat index %d)", i, c.ref.src[i], c.ref.idx[i])
		}
	}
	return fmt.Sprintf("%d elements, want %d", len(got), len(want))
}

func TestC08(t *testing.T) {
	ev.Begin("C08",
		"rapid: operator drawn from the 5 (Slice twice as often), data of rank 1..4 (Expand also rank 0) with contents 0,1,2,… in any of the 14 element types; every permutation plus invalid perms; Concat of 1..4 inputs along any (negative) axis plus mismatching ones; Slice requests half inside what gorgonia slicing implements (0 <= start < end <= dim, step 1..3) and half over the full ONNX domain (starts/ends in [-dim-2, dim+2] and INT64/INT32 extremes, steps 1,2,3,-1,-2, axes subsets in any order and spelling, int32 or int64 index tensors); Gather over every axis with index tensors of rank 0..2, negative and out-of-range indices; Expand targets shorter, equal, longer, two-way and incompatible. "+
			"Non-trivial: Slice with a negative/clamped index, step != 1, unit or empty extent; Gather index rank != 1 or negative index; Expand target rank != input rank or two-way; Transpose rank >= 3; Concat >= 3 inputs or negative axis; any invalid request. Distinct = (op, attributes, shapes, index tensors, dtype).",
		"oracle: ONNX index formulas over flat arrays; valid requests may be refused with an error (statement), never answered with other data or another shape")
	defer reportKnownFindings("C08")

	check(t, "ops", 40000, 400000, func(rt *rapid.T) {
		c := c08Gen(rt)
		res := runOp(c.op, c.node, c.inputs())
		cls := []string{"op-" + c.op}
		if c.feature != "" {
			cls = append(cls, c.op+"-"+c.feature)
		}
		if c.valid && res.ok() {
			cls = append(cls, c.op+"-computed")
		}
		ev.Case("C08", c.String(), c.feature != "", cls...)
		if v := c08Judge(c, res); v != "" {
			rt.Fatalf("C08 violated by %v: %s\noutcome: %v", c, v, res)
		}
		if rapid.IntRange(0, 5).Draw(rt, "reuseInstance") == 0 {
			forceOp = c.op
			other := c08Gen(rt)
			forceOp = ""
			ev.Class("C08", "instance-reused")
			if d := reuseDifferential(c.op, c.node, other.inputs(), c.inputs()); d != "" {
				rt.Fatalf("C08 violated by %v after the same operator instance served %v: %s", c, other, d)
			}
		}
		if c.op == "Concat" && c.valid && rapid.IntRange(0, 3).Draw(rt, "sameObjectTwice") == 0 {
			// one tensor object concatenated with itself (the same name listed several times)
			k2 := rapid.IntRange(2, 3).Draw(rt, "copies")
			obj := cloneT(c.ins[0])
			c2 := c
			c2.ins, c2.nData = nil, k2
			var shapes [][]int
			var objs []tensor.Tensor
			for i := 0; i < k2; i++ {
				c2.ins = append(c2.ins, c.ins[0])
				shapes = append(shapes, cloneInts(c.ins[0].Shape()))
				objs = append(objs, obj)
			}
			axis := int(c.node.Attribute[0].I)
			if axis < 0 {
				axis += len(shapes[0])
			}
			c2.ref = refConcat(shapes, axis)
			ev.Class("C08", "concat-of-one-object-with-itself")
			if v := c08Judge(c2, runOp("Concat", c.node, objs)); v != "" {
				rt.Fatalf("C08 violated by %v when input 0 is listed %d times (one tensor object): %s", c, k2, v)
			}
		}
		if len(c.ins) >= 2 && rapid.IntRange(0, 5).Draw(rt, "sharedParams") == 0 {
			if od, ok := otherDataLike(rt, c.ins[0]); ok {
				ev.Class("C08", "instance-and-parameter-tensors-served-another-data-tensor")
				if d := reuseSharedParams(c.op, c.node, od, c.inputs()); d != "" {
					rt.Fatalf("C08 violated by %v: %s", c, d)
				}
			}
		}
		if _, enc := onnxTypeOf[c.ins[0].Dtype()]; enc && rapid.IntRange(0, 4).Draw(rt, "modelLevel") == 0 {
			mres := runSingleNodeModel(c.node, c.inputs(), 1)
			ev.Class("C08", "model-level")
			if d := agreeLevels(res, mres); d != "" {
				rt.Fatalf("C08 violated by %v: single-node model disagrees with operator API: %s", c, d)
			}
		}
	})
}

func init() {
	sl := func(shape []int, starts, ends, axes, steps []int64) opResult {
		ins := []tensor.Tensor{rangeT(tensor.Float32, shape), int64T(starts...), int64T(ends...), nil, nil}
		if axes != nil {
			ins[3] = int64T(axes...)
		}
		if steps != nil {
			ins[4] = int64T(steps...)
		}
		return runOp("Slice", mkNode("Slice", nil, nil), ins)
	}
	kfRepro["KF-C08-slice-drops-unit-axes"] = func() (bool, string) {
		r := sl([]int{3, 4}, []int64{1}, []int64{2}, nil, nil)
		return !(r.ok() && eqInts(r.outs[0].Shape(), []int{1, 4})), "Slice((3,4), [1:2]) -> " + r.String() + ", want shape (1,4)"
	}
	kfRepro["KF-C08-slice-axis0-step-truncated"] = func() (bool, string) {
		r := sl([]int{10}, []int64{0}, []int64{10}, []int64{0}, []int64{3})
		return !(r.ok() && eqInts(r.outs[0].Shape(), []int{4})), "Slice(range(10), [0:10:3]) -> " + r.String() + ", want [0 3 6 9]"
	}
	kfRepro["KF-C08-slice-empty-result"] = func() (bool, string) {
		r := sl([]int{6}, []int64{5}, []int64{5}, nil, nil)
		return !r.refused(), "Slice(range(6), [5:5]) -> " + r.String() + ", the empty ONNX result should be refused"
	}
	kfRepro["KF-C08-slice-negative-step-panic"] = func() (bool, string) {
		r := sl([]int{4}, []int64{2}, []int64{2}, []int64{0}, []int64{-1})
		return r.panicked, "Slice(range(4), [2:2:-1]) -> " + r.String()
	}
	kfRepro["KF-C08-expand-left-aligned-unchecked"] = func() (bool, string) {
		r := runOp("Expand", mkNode("Expand", nil, nil), []tensor.Tensor{rangeT(tensor.Float32, []int{2, 3}), int64T(2, 2)})
		r2 := runOp("Expand", mkNode("Expand", nil, nil), []tensor.Tensor{rangeT(tensor.Float32, []int{3, 1}), int64T(4)})
		return r.ok() || !(r2.ok() && eqInts(r2.outs[0].Shape(), []int{3, 4})), fmt.Sprintf("Expand((2,3),[2,2]) -> %v (must be refused); Expand((3,1),[4]) -> %v (want shape (3,4))", r, r2)
	}
}
