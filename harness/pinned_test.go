package harness

// Pinned regression cases for defects that were repaired in /repo directly (without ever being an
// open known finding). Together with the reproducers of the findings that were repaired later
// (kfRepro entries whose finding is no longer open) they form the replay tier of each check.
// Every function returns (deviates, detail).

import (
	"fmt"

	"github.com/advancedclimatesystems/gonnx"
	"github.com/advancedclimatesystems/gonnx/onnx"
	"gorgonia.org/tensor"
)

func pinnedConv(g convGeom) (bool, string) {
	c := c05Case{g: g, dt: tensor.Float32}
	c.x = toDtype(c.dt, append([]int{g.n, g.c}, g.in...), func() []float64 {
		v := make([]float64, g.n*g.c*prod(g.in))
		for i := range v {
			v[i] = float64(i%7) - 2.5
		}
		return v
	}())
	c.w = toDtype(c.dt, append([]int{g.m, g.c}, g.k...), func() []float64 {
		v := make([]float64, g.m*g.c*prod(g.k))
		for i := range v {
			v[i] = float64(i%5) - 1.5
		}
		return v
	}())
	if g.hasBias {
		c.b = toDtype(c.dt, []int{g.m}, []float64{0.5, -1, 2}[:g.m])
	}
	res := runOp("Conv", g.node(), c.inputs())
	v := c05Judge(c, res)
	if v == "" && !res.ok() {
		return true, "refused: " + res.String()
	}
	return v != "", fmt.Sprintf("%v: %s", g, v)
}

func init() {
	pinnedRegressions["C05-width-loop-bounded-by-height"] = func() (bool, string) {
		return pinnedConv(convGeom{n: 1, c: 1, m: 1, in: []int{2, 6}, k: []int{2, 2}, stride: []int{1, 1}, dil: []int{1, 1}, padLo: []int{0, 0}, padHi: []int{0, 0}})
	}
	pinnedRegressions["C05-autopad-from-batch-and-channels"] = func() (bool, string) {
		return pinnedConv(convGeom{n: 1, c: 2, m: 1, in: []int{6, 7}, k: []int{3, 3}, stride: []int{2, 2}, dil: []int{1, 1}, padLo: []int{0, 0}, padHi: []int{0, 0}, autoPad: "SAME_UPPER"})
	}
	pinnedRegressions["C05-autopad-negative-padding"] = func() (bool, string) {
		g := convGeom{n: 1, c: 1, m: 1, in: []int{7, 7}, k: []int{2, 2}, stride: []int{3, 3}, dil: []int{1, 1}, padLo: []int{0, 0}, padHi: []int{0, 0}, autoPad: "SAME_LOWER"}
		x := rangeT(tensor.Float32, []int{1, 1, 7, 7})
		w := rangeT(tensor.Float32, []int{1, 1, 2, 2})
		r := runOp("Conv", g.node(), []tensor.Tensor{x, w})
		return r.panicked, "Conv with stride > kernel and auto_pad: " + r.String()
	}
	pinnedRegressions["C02-conv-bias-initializer-second-run"] = func() (bool, string) {
		g := &onnx.GraphProto{
			Input:       []*onnx.ValueInfoProto{valueInfo("x", 1, "N", 1, 3, 3)},
			Output:      []*onnx.ValueInfoProto{valueInfoNoShape("y")},
			Initializer: []*onnx.TensorProto{protoOf("w", rangeT(tensor.Float32, []int{2, 1, 2, 2})), protoOf("b", mkT([]int{2}, []float32{1, -1}))},
			Node:        []*onnx.NodeProto{mkNode("Conv", []string{"x", "w", "b"}, []string{"y"})},
		}
		lr := loadBytes(marshalModel(mkModel(g, 13)))
		if lr.err != nil || lr.panicked {
			return true, fmt.Sprint("load: ", lr.err, lr.panicVal)
		}
		feed := func() gonnx.Tensors { return gonnx.Tensors{"x": rangeT(tensor.Float32, []int{1, 1, 3, 3})} }
		r1 := runModel(lr.m, feed())
		r2 := runModel(lr.m, feed())
		if r1.err != nil || r2.err != nil || r1.panicked || r2.panicked {
			return true, fmt.Sprintf("first Run: %v, second Run: %v", r1, r2)
		}
		d := sameBits(r1.outs["y"], r2.outs["y"])
		return d != "", "second Run differs: " + d
	}
	pinnedRegressions["C01-lstm-outputs-bound-by-position"] = func() (bool, string) {
		c := rnnCase{kind: "LSTM", S: 2, B: 1, I: 2, H: 2, dt: tensor.Float32, lbr: -1, inputForget: -1, explicitNil: true}
		c.X = []float32{1, -1, 0.5, 2}
		c.W, c.R = make([]float32, 16), make([]float32, 16)
		for i := range c.W {
			c.W[i], c.R[i] = float32(i%5)/8-0.25, float32(i%3)/4-0.25
		}
		node := c.node()
		node.Output = []string{"Y_h", "anything", "Y"}
		r := runOp("LSTM", node, c.inputs())
		if !r.ok() || len(r.outs) != 3 {
			return true, r.String()
		}
		for i, o := range r.outs {
			if o == nil {
				return true, fmt.Sprintf("output %d is nil", i)
			}
		}
		Y, Yh, Yc, _ := refRecurrent(c, false)
		return c06Compare(c, r.outs, Y, Yh, Yc) != "", "results are not in the order Y, Y_h, Y_c"
	}
	pinnedRegressions["C02-recurrent-initial-state-untouched"] = func() (bool, string) {
		for _, kind := range []string{"RNN", "GRU", "LSTM"} {
			c := rnnCase{kind: kind, S: 2, B: 2, I: 2, H: 2, dt: tensor.Float32, lbr: -1, inputForget: -1, explicitNil: true}
			G := c.gates()
			c.X, c.W, c.R = make([]float32, 8), make([]float32, G*4), make([]float32, G*4)
			c.H0, c.C0 = []float32{0.5, -0.5, 0.25, 1}, nil
			if kind == "LSTM" {
				c.C0 = []float32{1, 2, 3, 4}
			}
			ins := c.inputs()
			before := []snapshot{snap(ins[5])}
			if kind == "LSTM" {
				before = append(before, snap(ins[6]))
			}
			r := runOp(kind, c.node(), ins)
			if !r.ok() {
				return true, kind + ": " + r.String()
			}
			if d := before[0].diff(snap(ins[5])); d != "" {
				return true, kind + " changed initial_h: " + d
			}
			if kind == "LSTM" {
				if d := before[1].diff(snap(ins[6])); d != "" {
					return true, "LSTM changed initial_c: " + d
				}
			}
		}
		return false, ""
	}
	pinnedRegressions["C01-caller-overrides-initializer-input"] = func() (bool, string) {
		g := &onnx.GraphProto{
			Input:       []*onnx.ValueInfoProto{valueInfo("x", 1, 2), valueInfo("w", 1, 2)},
			Output:      []*onnx.ValueInfoProto{valueInfoNoShape("y")},
			Initializer: []*onnx.TensorProto{protoOf("w", mkT([]int{2}, []float32{10, 20}))},
			Node:        []*onnx.NodeProto{mkNode("Add", []string{"x", "w"}, []string{"y"})},
		}
		lr := loadBytes(marshalModel(mkModel(g, 13)))
		if lr.err != nil || lr.panicked {
			return true, fmt.Sprint("load: ", lr.err, lr.panicVal)
		}
		r := runModel(lr.m, gonnx.Tensors{"x": mkT([]int{2}, []float32{1, 2}), "w": mkT([]int{2}, []float32{100, 200})})
		if r.err != nil || r.panicked {
			return true, r.String()
		}
		got := f64s(r.outs["y"])
		bad := runModel(lr.m, gonnx.Tensors{"x": mkT([]int{2}, []float32{1, 2}), "w": mkT([]int{3}, []float32{1, 2, 3})})
		return got[0] != 101 || got[1] != 202 || bad.err == nil, fmt.Sprintf("y = %v (want [101 202]); wrong-size override: %v", got, bad)
	}
	pinnedRegressions["C02-argmax-keeps-input-shape"] = func() (bool, string) {
		x := rangeT(tensor.Float32, []int{2, 3})
		s := snap(x)
		r := runOp("ArgMax", mkNode("ArgMax", nil, nil, attrI("axis", 1), attrI("keepdims", 1)), []tensor.Tensor{x})
		if !r.ok() {
			return true, r.String()
		}
		d := s.diff(snap(x))
		return d != "", "ArgMax changed its input: " + d
	}
	pinnedRegressions["C13-initializer-backed-input-validated"] = pinnedRegressions["C01-caller-overrides-initializer-input"]
	pinnedRegressions["C17-conv-bias-and-state-race-free"] = func() (bool, string) {
		// the sequential part of the repaired races: the weights keep their shape after a Run
		g := &onnx.GraphProto{
			Input:       []*onnx.ValueInfoProto{valueInfo("x", 1, "N", 1, 3, 3)},
			Output:      []*onnx.ValueInfoProto{valueInfoNoShape("y")},
			Initializer: []*onnx.TensorProto{protoOf("w", rangeT(tensor.Float32, []int{2, 1, 2, 2})), protoOf("b", mkT([]int{2}, []float32{1, -1}))},
			Node:        []*onnx.NodeProto{mkNode("Conv", []string{"x", "w", "b"}, []string{"y"})},
		}
		lr := loadBytes(marshalModel(mkModel(g, 13)))
		if lr.err != nil || lr.panicked {
			return true, "load failed"
		}
		before := snapTensors(gonnx.VerifParameters(lr.m))
		_ = runModel(lr.m, gonnx.Tensors{"x": rangeT(tensor.Float32, []int{1, 1, 3, 3})})
		after := snapTensors(gonnx.VerifParameters(lr.m))
		for k, s := range before {
			if d := s.diff(after[k]); d != "" {
				return true, "weight " + k + " changed: " + d
			}
		}
		return false, ""
	}
}
