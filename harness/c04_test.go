package harness

// C04 — MatMul, Gemm, LinearRegressor and Scaler compute their algebraic definitions.

import (
	"fmt"
	"math"
	"reflect"
	"testing"

	"github.com/advancedclimatesystems/gonnx/onnx"
	"gorgonia.org/tensor"
	"pgregory.net/rapid"
)

// dotRef: result values in float64 with the condition sum S (sum of |terms|) and the dot-product
// length K per element, for the gamma_K forward error bound.
type dotRef struct {
	shape []int
	val   []float64
	cond  []float64
	k     int
}

// unitRound: unit roundoff of the element type.
func unitRound(dt tensor.Dtype) float64 {
	if dt == tensor.Float32 {
		return math.Ldexp(1, -24)
	}
	return math.Ldexp(1, -53)
}

// withinDotBound: |got - ref| <= (K+8) u S + tiny.
func (r dotRef) check(dt tensor.Dtype, got []float64) string {
	u := unitRound(dt)
	tiny := 1e-300
	if dt == tensor.Float32 {
		tiny = 1e-37
	}
	if len(got) != len(r.val) {
		return fmt.Sprintf("%d elements, want %d", len(got), len(r.val))
	}
	for i := range got {
		tol := float64(r.k+8)*u*r.cond[i] + tiny
		if math.IsNaN(got[i]) || math.Abs(got[i]-r.val[i]) > tol {
			return fmt.Sprintf("element %d: got %v, reference %v (|Δ|=%g, bound %g, K=%d)", i, got[i], r.val[i], math.Abs(got[i]-r.val[i]), tol, r.k)
		}
	}
	return ""
}

// refMatMul implements numpy.matmul over flat arrays; ok=false when the shapes are invalid.
func refMatMul(a []float64, sa []int, b []float64, sb []int) (dotRef, bool) {
	if len(sa) == 0 || len(sb) == 0 {
		return dotRef{}, false
	}
	pa, pb := cloneInts(sa), cloneInts(sb)
	vecA, vecB := false, false
	if len(pa) == 1 {
		pa, vecA = []int{1, pa[0]}, true
	}
	if len(pb) == 1 {
		pb, vecB = []int{pb[0], 1}, true
	}
	m, k := pa[len(pa)-2], pa[len(pa)-1]
	k2, n := pb[len(pb)-2], pb[len(pb)-1]
	if k != k2 {
		return dotRef{}, false
	}
	ba, bb := pa[:len(pa)-2], pb[:len(pb)-2]
	batch, ok := bcastShape(ba, bb)
	if !ok {
		return dotRef{}, false
	}
	full := append(cloneInts(batch), m, n)
	r := dotRef{k: k}
	nb := prod(batch)
	for bi := 0; bi < nb; bi++ {
		bidx := unravel(bi, batch)
		oa := bcastIndex(bidx, ba) * m * k
		ob := bcastIndex(bidx, bb) * k * n
		for i := 0; i < m; i++ {
			for j := 0; j < n; j++ {
				s, c := 0.0, 0.0
				for t := 0; t < k; t++ {
					p := a[oa+i*k+t] * b[ob+t*n+j]
					s += p
					c += math.Abs(p)
				}
				r.val = append(r.val, s)
				r.cond = append(r.cond, c)
			}
		}
	}
	// demote
	out := full
	if vecA {
		out = append(cloneInts(out[:len(out)-2]), out[len(out)-1])
	}
	if vecB {
		out = cloneInts(out[:len(out)-1])
	}
	r.shape = out
	return r, true
}

// genDotValues: operands for dot products: small integers, uniform values, scaled powers of two.
func genDotValues(rt *rapid.T, n int, label string) []float64 {
	if n > 2048 {
		base := genDotValues(rt, 257, label)
		out := make([]float64, n)
		for i := range out {
			out[i] = base[(i*7919+i/257)%257]
		}
		return out
	}
	out := make([]float64, n)
	kind := rapid.IntRange(0, 3).Draw(rt, label+"Kind")
	for i := range out {
		switch kind {
		case 0:
			out[i] = float64(rapid.IntRange(-4, 4).Draw(rt, label))
		case 1:
			out[i] = float64(rapid.IntRange(-4000, 4000).Draw(rt, label)) / 1000
		case 2:
			out[i] = float64(rapid.IntRange(-9, 9).Draw(rt, label)) * math.Ldexp(1, rapid.IntRange(-30, 30).Draw(rt, label+"e"))
		default:
			out[i] = float64(rapid.IntRange(-64, 64).Draw(rt, label)) / 16
		}
	}
	return out
}

func toDtype(dt tensor.Dtype, shape []int, v []float64) tensor.Tensor {
	return mkT(shape, backingOf64(dt, v))
}

type c04Case struct {
	op      string
	node    *onnx.NodeProto
	ins     []tensor.Tensor
	dt      tensor.Dtype
	valid   bool
	ref     dotRef
	feature string
	kfClass string // known-finding input class this case falls in ("" = none)
	bigInts bool   // integer operands beyond the exactly representable float range
}

func (c c04Case) String() string {
	s := descNode(c.node)
	for _, t := range c.ins {
		if t == nil {
			s += " nil"
		} else {
			s += fmt.Sprintf(" %v%v#%x", t.Dtype(), t.Shape(), hashBits(bitsAll(t)))
		}
	}
	return fmt.Sprintf("%s [%s] valid=%v want=%v", s, c.feature, c.valid, c.ref.shape)
}

func c04Gen(rt *rapid.T) c04Case {
	var c c04Case
	c.op = drawOp(rt, []string{"MatMul", "MatMul", "Gemm", "Gemm", "LinearRegressor", "Scaler"})
	c.valid = true
	c.dt = tensor.Float32
	switch c.op {
	case "MatMul":
		c.dt = rapid.SampledFrom([]tensor.Dtype{tensor.Float32, tensor.Float32, tensor.Float32, tensor.Float64, tensor.Int32, tensor.Int64, tensor.Uint32, tensor.Uint64}).Draw(rt, "dtype")
		dim := func(l string) int { return genExtent(4).Draw(rt, l) }
		m, k, n := dim("m"), dim("k"), dim("n")
		for m*k > 1500 {
			m = (m + 1) / 2
		}
		for k*n > 1500 {
			n = (n + 1) / 2
		}
		ra := rapid.SampledFrom([]int{1, 2, 2, 3, 3, 4, 5}).Draw(rt, "rankA")
		rb := rapid.SampledFrom([]int{1, 2, 2, 3, 3, 4, 5}).Draw(rt, "rankB")
		// batch shapes: broadcast pair built from a common batch shape
		nbatch := max(ra, rb) - 2
		if nbatch < 0 {
			nbatch = 0
		}
		common := make([]int, nbatch)
		for i := range common {
			common[i] = rapid.IntRange(1, 3).Draw(rt, "batch")
		}
		if nbatch > 0 && rapid.IntRange(0, 99).Draw(rt, "manyMatrices") == 0 {
			// more than a thousand matrices in one call (thresholds of blocked / parallel batch loops)
			common[rapid.IntRange(0, nbatch-1).Draw(rt, "manyAt")] = rapid.SampledFrom([]int{1025, 1030, 1100, 2049}).Draw(rt, "many")
			m, k, n = min(m, 3), min(k, 3), min(n, 3)
		}
		mk := func(r int, l string) []int {
			if r <= 2 {
				return nil
			}
			s := cloneInts(common[len(common)-(r-2):])
			for i := range s {
				if rapid.IntRange(0, 3).Draw(rt, l+"one") == 0 {
					s[i] = 1
				}
			}
			return s
		}
		ba, bb := mk(ra, "ba"), mk(rb, "bb")
		sa := append(cloneInts(ba), m, k)
		if ra == 1 {
			sa = []int{k}
		}
		sb := append(cloneInts(bb), k, n)
		if rb == 1 {
			sb = []int{k}
		}
		switch rapid.IntRange(0, 9).Draw(rt, "invalid") {
		case 0: // inner dimension mismatch
			sb[max(len(sb)-2, 0)] = k + 1
			c.valid, c.feature = false, "invalid-inner-dim"
		case 1: // incompatible batch
			if len(ba) > 0 && len(bb) > 0 {
				sa[len(ba)-1], sb[len(bb)-1] = 2, 3
				c.valid, c.feature = false, "invalid-batch"
			}
		}
		av, bv := genDotValues(rt, prod(sa), "a"), genDotValues(rt, prod(sb), "b")
		if isInt(c.dt) {
			for i := range av {
				av[i] = math.Abs(math.Trunc(math.Mod(av[i], 5)))
			}
			for i := range bv {
				bv[i] = math.Abs(math.Trunc(math.Mod(bv[i], 5)))
			}
		}
		A, B := toDtype(c.dt, sa, av), toDtype(c.dt, sb, bv)
		if isInt(c.dt) && rapid.IntRange(0, 2).Draw(rt, "bigInts") == 0 {
			// integers beyond 2^24 / 2^53 (not exactly representable as floats of the same width)
			big := []int64{1<<53 + 1, 100000001, 1<<31 - 1, 1<<24 + 1, 3, 1, 0, 1<<40 + 7}
			mkBig := func(n int, l string) any {
				s := reflect.MakeSlice(reflect.SliceOf(c.dt.Type), n, n)
				for i := 0; i < n; i++ {
					v := rapid.SampledFrom(big).Draw(rt, l)
					if s.Index(i).CanInt() {
						s.Index(i).SetInt(v)
					} else {
						s.Index(i).SetUint(uint64(v))
					}
				}
				return s.Interface()
			}
			A, B = mkT(sa, mkBig(prod(sa), "bigA")), mkT(sb, mkBig(prod(sb), "bigB"))
			c.bigInts = true
		}
		c.ins = []tensor.Tensor{A, B}
		c.node = mkNode("MatMul", nil, []string{"y"})
		if c.valid {
			c.ref, _ = refMatMul(f64s(A), sa, f64s(B), sb)
			if ra != 2 || rb != 2 {
				c.feature = fmt.Sprintf("ranks-%d-%d", ra, rb)
				// known-finding class: batched path with a one-element matrix after promotion
				mm, nn := m, n
				if ra == 1 {
					mm = 1
				}
				if rb == 1 {
					nn = 1
				}
				if mm*k == 1 || k*nn == 1 {
					c.kfClass = "unit-matrix"
				}
			} else if m == 1 || k == 1 || n == 1 {
				c.feature = "unit-dim"
			}
		}
	case "Gemm":
		c.dt = rapid.SampledFrom([]tensor.Dtype{tensor.Float32, tensor.Float32, tensor.Float32, tensor.Float64, tensor.Int32, tensor.Int64, tensor.Uint32, tensor.Uint64}).Draw(rt, "dtype")
		m, k, n := genExtent(5).Draw(rt, "m"), genExtent(5).Draw(rt, "k"), genExtent(5).Draw(rt, "n")
		for m*k > 1500 {
			m = (m + 1) / 2
		}
		for k*n > 1500 {
			n = (n + 1) / 2
		}
		for m*n > 1500 {
			m = (m + 1) / 2
		}
		transA, transB := rapid.Bool().Draw(rt, "transA"), rapid.Bool().Draw(rt, "transB")
		alpha, beta := 1.0, 1.0
		var attrs []*onnx.AttributeProto
		pickScalar := func(l string) (float64, bool) {
			switch rapid.IntRange(0, 5).Draw(rt, l+"k") {
			case 0:
				return 1, false
			case 1:
				return 0, true
			case 2:
				return -1, true
			case 3:
				return 0.5, true
			case 4:
				return 1, true
			}
			return float64(float32(float64(rapid.IntRange(-3000, 3000).Draw(rt, l)) / 1000)), true
		}
		if !isInt(c.dt) {
			var p bool
			if alpha, p = pickScalar("alpha"); p {
				attrs = append(attrs, attrF("alpha", float32(alpha)))
			}
			if beta, p = pickScalar("beta"); p {
				attrs = append(attrs, attrF("beta", float32(beta)))
			}
		}
		if transA || rapid.IntRange(0, 3).Draw(rt, "transA0") == 0 {
			v := int64(0)
			if transA {
				v = 1
			}
			attrs = append(attrs, attrI("transA", v))
		}
		if transB || rapid.IntRange(0, 3).Draw(rt, "transB0") == 0 {
			v := int64(0)
			if transB {
				v = 1
			}
			attrs = append(attrs, attrI("transB", v))
		}
		sa, sb := []int{m, k}, []int{k, n}
		if transA {
			sa = []int{k, m}
		}
		if transB {
			sb = []int{n, k}
		}
		small := func(v []float64) []float64 {
			if isInt(c.dt) {
				for i := range v {
					v[i] = math.Abs(math.Trunc(math.Mod(v[i], 5)))
				}
			}
			return v
		}
		av, bv := small(genDotValues(rt, m*k, "a")), small(genDotValues(rt, k*n, "b"))
		A, B := toDtype(c.dt, sa, av), toDtype(c.dt, sb, bv)
		av, bv = f64s(A), f64s(B)
		cform := rapid.SampledFrom([]string{"absent", "nil", "()", "(1)", "(N)", "(1,N)", "(M,1)", "(M,N)", "bad"}).Draw(rt, "cform")
		var cs []int
		hasC := true
		switch cform {
		case "absent", "nil":
			hasC = false
		case "()":
			cs = []int{}
		case "(1)":
			cs = []int{1}
		case "(N)":
			cs = []int{n}
		case "(1,N)":
			cs = []int{1, n}
		case "(M,1)":
			cs = []int{m, 1}
		case "(M,N)":
			cs = []int{m, n}
		case "bad":
			cs = []int{m + 1, n}
			if rapid.Bool().Draw(rt, "badKind") {
				cs = []int{n + 1}
			}
			c.valid = false
		}
		c.ins = []tensor.Tensor{A, B}
		var cv []float64
		if hasC {
			C := toDtype(c.dt, cs, small(genDotValues(rt, prod(cs), "c")))
			cv = f64s(C)
			c.ins = append(c.ins, C)
		} else if cform == "nil" {
			c.ins = append(c.ins, nil)
		}
		if rapid.IntRange(0, 11).Draw(rt, "innerMismatch") == 0 {
			// inner dimensions disagree
			sb2 := cloneInts(sb)
			if transB {
				sb2[1]++
			} else {
				sb2[0]++
			}
			c.ins[1] = toDtype(c.dt, sb2, small(genDotValues(rt, prod(sb2), "b2")))
			c.valid = false
		}
		c.node = mkNode("Gemm", nil, []string{"y"}, attrs...)
		c.feature = "C=" + cform
		if transA || transB {
			c.feature += fmt.Sprintf(",trans=%v/%v", transA, transB)
		}
		if !c.valid {
			c.feature += ",invalid"
		} else {
			r := dotRef{shape: []int{m, n}, k: k + 1}
			for i := 0; i < m; i++ {
				for j := 0; j < n; j++ {
					s, cond := 0.0, 0.0
					for t := 0; t < k; t++ {
						var x, y float64
						if transA {
							x = av[t*m+i]
						} else {
							x = av[i*k+t]
						}
						if transB {
							y = bv[j*k+t]
						} else {
							y = bv[t*n+j]
						}
						s += x * y
						cond += math.Abs(x * y)
					}
					s *= alpha
					cond *= math.Abs(alpha)
					if hasC {
						cc := cv[bcastIndex([]int{i, j}, cs)] * beta
						s += cc
						cond += math.Abs(cc)
					}
					r.val = append(r.val, s)
					r.cond = append(r.cond, cond)
				}
			}
			c.ref = r
		}
	case "LinearRegressor":
		nS, f, tg := genExtent(4).Draw(rt, "n"), genExtent(4).Draw(rt, "features"), genExtent(4).Draw(rt, "targets")
		for nS*f > 1500 {
			nS = (nS + 1) / 2
		}
		for tg*f > 1500 {
			tg = (tg + 1) / 2
		}
		c.dt = rapid.SampledFrom([]tensor.Dtype{tensor.Float32, tensor.Float32, tensor.Float32, tensor.Float64, tensor.Int32, tensor.Int64}).Draw(rt, "dtype")
		xv := genDotValues(rt, nS*f, "x")
		X := toDtype(c.dt, []int{nS, f}, xv)
		xv = f64s(X)
		coef := smallF32s(rt, tg*f, 3, "coef")
		var icpt []float32
		hasI := rapid.IntRange(0, 3).Draw(rt, "intercepts") != 0
		if hasI {
			icpt = smallF32s(rt, tg, 3, "icpt")
		}
		attrs := []*onnx.AttributeProto{attrFs("coefficients", coef...)}
		if hasI {
			attrs = append(attrs, attrFs("intercepts", icpt...))
		}
		if tg != 1 || rapid.Bool().Draw(rt, "targetsExplicit") {
			attrs = append(attrs, attrI("targets", int64(tg)))
		}
		attrs = rapid.Permutation(attrs).Draw(rt, "attrOrder")
		c.node = mkNode("LinearRegressor", nil, []string{"y"}, attrs...)
		c.ins = []tensor.Tensor{X}
		c.feature = fmt.Sprintf("targets=%d,intercepts=%v", tg, hasI)
		if !hasI {
			c.kfClass = "no-intercepts"
		}
		r := dotRef{shape: []int{nS, tg}, k: f + 1}
		for i := 0; i < nS; i++ {
			for j := 0; j < tg; j++ {
				s, cond := 0.0, 0.0
				for t := 0; t < f; t++ {
					p := xv[i*f+t] * float64(coef[j*f+t])
					s += p
					cond += math.Abs(p)
				}
				if hasI {
					s += float64(icpt[j])
					cond += math.Abs(float64(icpt[j]))
				}
				r.val = append(r.val, s)
				r.cond = append(r.cond, cond)
			}
		}
		c.ref = r
	case "Scaler":
		nS, f := genExtent(4).Draw(rt, "n"), genExtent(5).Draw(rt, "features")
		for nS*f > 1500 {
			nS = (nS + 1) / 2
		}
		c.dt = rapid.SampledFrom([]tensor.Dtype{tensor.Float32, tensor.Float32, tensor.Float32, tensor.Float64, tensor.Int32, tensor.Int64}).Draw(rt, "dtype")
		X := toDtype(c.dt, []int{nS, f}, genDotValues(rt, nS*f, "x"))
		xv := f64s(X)
		no, ns := f, f
		if rapid.IntRange(0, 2).Draw(rt, "singleOffset") == 0 {
			no = 1
		}
		if rapid.IntRange(0, 2).Draw(rt, "singleScale") == 0 {
			ns = 1
		}
		off, sc := smallF32s(rt, no, 3, "offset"), smallF32s(rt, ns, 3, "scale")
		if rapid.Bool().Draw(rt, "decimalAttrs") {
			// values that are not short binary fractions (means and inverse standard deviations)
			for i, v := range genDotValues(rt, no, "offsetD") {
				off[i] = float32(v)
			}
			for i, v := range genDotValues(rt, ns, "scaleD") {
				sc[i] = float32(v)
			}
		}
		if c.dt == tensor.Float32 && rapid.IntRange(0, 2).Draw(rt, "nearOffset") == 0 {
			// standardised data sits close to its mean: inputs within a few percent of the offset
			for i := range xv {
				xv[i] = float64(float32(float64(off[(i%f)%no]) * (1 + float64(rapid.IntRange(-40, 40).Draw(rt, "rel"))/1000)))
			}
			X = toDtype(c.dt, []int{nS, f}, xv)
			xv = f64s(X)
		}
		attrs := rapid.Permutation([]*onnx.AttributeProto{attrFs("offset", off...), attrFs("scale", sc...)}).Draw(rt, "attrOrder")
		c.node = mkNode("Scaler", nil, []string{"y"}, attrs...)
		c.ins = []tensor.Tensor{X}
		c.feature = fmt.Sprintf("offset=%d,scale=%d,features=%d", no, ns, f)
		r := dotRef{shape: []int{nS, f}, k: 2}
		if nS == 1 && rapid.Bool().Draw(rt, "rank1Input") {
			// a single sample given as a vector of features
			c.ins = []tensor.Tensor{toDtype(c.dt, []int{f}, xv)}
			c.feature += ",rank-1-input"
			r.shape = []int{f}
		}
		for i := 0; i < nS; i++ {
			for j := 0; j < f; j++ {
				o, s := float64(off[j%no]), float64(sc[j%ns])
				r.val = append(r.val, (xv[i*f+j]-o)*s)
				// the ONNX-ML formula is (x - offset) * scale: the difference of two floats is
				// rounded once, relative to the difference itself, so the bound is relative to the
				// result and not to |x| + |offset| (which would also admit x*scale - offset*scale)
				r.cond = append(r.cond, math.Abs(xv[i*f+j]-o)*math.Abs(s))
			}
		}
		c.ref = r
	}
	return c
}

func c04Judge(c c04Case, res opResult) string {
	if res.panicked {
		if c.op == "LinearRegressor" && c.kfClass == "no-intercepts" && kfAccept("KF-C04-linearregressor-no-intercepts-panic") {
			return ""
		}
		return "panic: " + fmt.Sprint(res.panicVal)
	}
	if !c.valid {
		if res.err == nil {
			return "invalid request answered with a tensor: " + res.String()
		}
		return ""
	}
	if res.err != nil {
		if c.dt != tensor.Float32 {
			ev.Refused("C04-" + c.op + " " + c.dt.String() + ": " + refusalReason(res.err)) // only float32 must be computed
			return ""
		}
		if c.op == "MatMul" && c.kfClass == "unit-matrix" && kfAccept("KF-C04-matmul-unit-matrix-refused") {
			return ""
		}
		return "float32 request refused: " + res.err.Error()
	}
	if len(res.outs) != 1 || res.outs[0] == nil {
		return "expected exactly one non-nil output"
	}
	out := res.outs[0]
	if !eqInts(out.Shape(), c.ref.shape) {
		return fmt.Sprintf("shape %v, want %v", out.Shape(), c.ref.shape)
	}
	wantDt := c.dt
	if (c.op == "LinearRegressor" || c.op == "Scaler") && !isFloat(c.dt) {
		wantDt = out.Dtype() // ONNX-ML always yields float; not asserted for integer inputs
	}
	if out.Dtype() != wantDt {
		return fmt.Sprintf("dtype %v, want %v", out.Dtype(), wantDt)
	}
	if isInt(out.Dtype()) && c.op == "MatMul" {
		// exact wrap-around integer arithmetic on bit patterns
		want, ok := refMatMulBits(bitsAll(c.ins[0]), c.ins[0].Shape(), bitsAll(c.ins[1]), c.ins[1].Shape())
		if !ok {
			return "harness: integer reference undefined"
		}
		mask := ^uint64(0)
		if elemSize(out.Dtype()) == 4 {
			mask = 0xffffffff
		}
		g := bitsAll(out)
		for i := range g {
			if g[i]&mask != want[i]&mask {
				return fmt.Sprintf("element %d: got %d, exact integer result %d", i, int64(g[i]), int64(want[i]))
			}
		}
		return ""
	}
	if isInt(out.Dtype()) {
		g := f64s(out)
		for i := range g {
			if g[i] != c.ref.val[i] {
				return fmt.Sprintf("element %d: got %v, want %v", i, g[i], c.ref.val[i])
			}
		}
		return ""
	}
	return c.ref.check(out.Dtype(), f64s(out))
}

func TestC04(t *testing.T) {
	ev.Begin("C04",
		"rapid: MatMul with operand ranks 1..5, dims 1..4 (1 over-weighted), batch shapes broadcastable (built from a common batch shape with axes squeezed to 1) or deliberately not, inner dims equal or not; Gemm with M,K,N in 1..5, all transA/transB, alpha/beta from {absent,0,1,-1,0.5,random}, C in {absent, nil, (), (1), (N), (1,N), (M,1), (M,N), non-broadcastable}; LinearRegressor with N,features,targets in 1..4, intercepts present/absent, attribute order shuffled; Scaler with per-feature or single offset/scale; float32 mostly, float64/int/uint as compute-or-refuse. "+
			"Non-trivial: MatMul with an operand rank != 2 or a unit dimension; Gemm with a transpose flag or a C operand; LinearRegressor with targets > 1; Scaler with a single offset or scale; any invalid request. Distinct = (op, attributes, shapes, value bits).",
		"float64 reference with the gamma_K forward bound |got-ref| <= (K+8) u S (DESIGN.md 1.6), valid for every summation order")
	defer reportKnownFindings("C04")

	check(t, "ops", 30000, 400000, func(rt *rapid.T) {
		c := c04Gen(rt)
		res := runOp(c.op, c.node, cloneTs(c.ins))
		cls := []string{"op-" + c.op, "dtype-" + c.dt.String()}
		if c.op == "Gemm" || !c.valid {
			cls = append(cls, c.op+"-"+c.feature)
		}
		if c.op == "MatMul" && c.valid && c.feature != "" {
			cls = append(cls, "MatMul-"+c.feature)
		}
		if c.kfClass != "" {
			cls = append(cls, "class-"+c.kfClass)
		}
		nontrivial := !c.valid
		switch c.op {
		case "MatMul":
			nontrivial = nontrivial || c.feature != ""
		case "Gemm":
			nontrivial = nontrivial || c.feature != "C=absent"
		case "LinearRegressor":
			nontrivial = nontrivial || c.ref.shape[1] > 1
		case "Scaler":
			nontrivial = true
		}
		ev.Case("C04", c.String(), nontrivial, cls...)
		if v := c04Judge(c, res); v != "" {
			rt.Fatalf("C04 violated by %v: %s", c, v)
		}
		if rapid.IntRange(0, 5).Draw(rt, "reuseInstance") == 0 {
			forceOp = c.op
			other := c04Gen(rt)
			forceOp = ""
			ev.Class("C04", "instance-reused")
			if d := reuseDifferential(c.op, c.node, other.ins, c.ins); d != "" {
				rt.Fatalf("C04 violated by %v after the same operator instance served %v: %s", c, other, d)
			}
		}
		if rapid.IntRange(0, 5).Draw(rt, "sameRequestTwice") == 0 {
			ev.Class("C04", "instance-served-the-same-request-before")
			if d := reuseDifferential(c.op, c.node, cloneTs(c.ins), cloneTs(c.ins)); d != "" {
				rt.Fatalf("C04 violated by %v when one operator instance answers the request a second time: %s", c, d)
			}
		}
		if len(c.ins) >= 2 && rapid.IntRange(0, 5).Draw(rt, "sharedParams") == 0 {
			if od, ok := otherDataLike(rt, c.ins[0]); ok {
				ev.Class("C04", "instance-and-parameter-tensors-served-another-data-tensor")
				if d := reuseSharedParams(c.op, c.node, od, cloneTs(c.ins)); d != "" {
					rt.Fatalf("C04 violated by %v: %s", c, d)
				}
			}
		}
		if rapid.IntRange(0, 4).Draw(rt, "modelLevel") == 0 {
			mres := runSingleNodeModel(c.node, cloneTs(c.ins), 1)
			ev.Class("C04", "model-level")
			if d := agreeLevels(res, mres); d != "" {
				rt.Fatalf("C04 violated by %v: single-node model disagrees with operator API: %s", c, d)
			}
		}
	})
}

func init() {
	kfRepro["KF-C04-matmul-unit-matrix-refused"] = func() (bool, string) {
		r := runOp("MatMul", mkNode("MatMul", nil, nil), []tensor.Tensor{mkT([]int{2, 1, 1}, []float32{2, 3}), mkT([]int{1, 1}, []float32{5})})
		return !r.ok(), "MatMul(float32 (2,1,1), (1,1)) -> " + r.String()
	}
	kfRepro["KF-C04-linearregressor-no-intercepts-panic"] = func() (bool, string) {
		r := runOp("LinearRegressor", mkNode("LinearRegressor", nil, nil, attrFs("coefficients", 1, 2)), []tensor.Tensor{mkT([]int{1, 2}, []float32{1, 1})})
		return !r.ok(), "LinearRegressor(coefficients=[1,2], no intercepts) -> " + r.String()
	}
}

// refMatMulBits: numpy.matmul over 64-bit patterns with wrap-around arithmetic.
func refMatMulBits(a []uint64, sa []int, b []uint64, sb []int) ([]uint64, bool) {
	fa, fb := make([]float64, len(a)), make([]float64, len(b))
	shape, ok := refMatMul(fa, sa, fb, sb) // shapes only
	if !ok {
		return nil, false
	}
	pa, pb := cloneInts(sa), cloneInts(sb)
	if len(pa) == 1 {
		pa = []int{1, pa[0]}
	}
	if len(pb) == 1 {
		pb = []int{pb[0], 1}
	}
	m, k, n := pa[len(pa)-2], pa[len(pa)-1], pb[len(pb)-1]
	ba, bb := pa[:len(pa)-2], pb[:len(pb)-2]
	batch, _ := bcastShape(ba, bb)
	var out []uint64
	for bi := 0; bi < prod(batch); bi++ {
		bidx := unravel(bi, batch)
		oa, ob := bcastIndex(bidx, ba)*m*k, bcastIndex(bidx, bb)*k*n
		for i := 0; i < m; i++ {
			for j := 0; j < n; j++ {
				var s uint64
				for t := 0; t < k; t++ {
					s += a[oa+i*k+t] * b[ob+t*n+j]
				}
				out = append(out, s)
			}
		}
	}
	_ = shape
	return out, true
}
