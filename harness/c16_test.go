package harness

// C16 — Samples in a batch do not influence one another (metamorphic: batch vs rows, permutation,
// sub-selection).

import (
	"fmt"
	"math"
	"testing"

	"github.com/advancedclimatesystems/gonnx"
	"github.com/advancedclimatesystems/gonnx/onnx"
	"gorgonia.org/tensor"
	"pgregory.net/rapid"
)

// batchModel abstracts a model whose inputs and outputs carry a batch axis.
type batchModel struct {
	desc     string
	m        *gonnx.Model
	inBatch  map[string]int
	outBatch map[string]int
	depth    int
	// unitRecurrent: the model holds an RNN/GRU/LSTM whose input_size is 1, so a single sample is a
	// one-element matrix per step (input class of KF-C16-recurrent-single-sample-unit-input)
	unitRecurrent bool
	// unitMatMul: the model holds a batched MatMul whose matrix has one element for a single sample
	unitMatMul bool
}

func (bm *batchModel) selectFeed(feed gonnx.Tensors, rows []int) gonnx.Tensors {
	out := gonnx.Tensors{}
	for k, t := range feed {
		out[k] = selectRows(t, bm.inBatch[k], rows)
	}
	return out
}

// closeEnough: |a-b| <= 1e-5 * max(1,|a|,|b|) * depth ("up to floating-point rounding").
func closeEnough(a, b []float64, depth int) (int, bool) {
	if len(a) != len(b) {
		return -1, false
	}
	for i := range a {
		if math.IsNaN(a[i]) && math.IsNaN(b[i]) {
			continue
		}
		if a[i] == b[i] {
			continue
		}
		tol := 1e-5 * math.Max(1, math.Max(math.Abs(a[i]), math.Abs(b[i]))) * float64(depth)
		if !(math.Abs(a[i]-b[i]) <= tol) {
			return i, false
		}
	}
	return 0, true
}

// checkRelation: Run(X[rows]) must equal Run(X)[rows] for every output. Returns a violation text.
func (bm *batchModel) checkRelation(full gonnx.Tensors, feed gonnx.Tensors, rows []int, what string) string {
	sub := bm.selectFeed(feed, rows)
	rr := runModel(bm.m, sub)
	if rr.panicked {
		return fmt.Sprintf("%s: Run on rows %v panics although the whole batch was computed: %v", what, rows, rr.panicVal)
	}
	if rr.err != nil {
		if bm.unitRecurrent && len(rows) == 1 && kfAccept("KF-C16-recurrent-single-sample-unit-input") {
			return ""
		}
		if bm.unitMatMul && len(rows) == 1 && kfAccept("KF-C16-matmul-single-sample-unit-matrix") {
			return ""
		}
		return fmt.Sprintf("%s: Run on rows %v fails although the whole batch was computed: %v", what, rows, rr.err)
	}
	for _, name := range sortedKeys(full) {
		want := full[name]
		if bm.outBatch[name] >= 0 {
			want = selectRows(full[name], bm.outBatch[name], rows)
		}
		got := rr.outs[name]
		if got == nil {
			return fmt.Sprintf("%s: output %q missing for rows %v", what, name, rows)
		}
		if !eqInts(got.Shape(), want.Shape()) {
			return fmt.Sprintf("%s: output %q for rows %v has shape %v, the batch result restricted to those rows has %v", what, name, rows, got.Shape(), want.Shape())
		}
		if i, ok := closeEnough(f64s(got), f64s(want), bm.depth); !ok {
			return fmt.Sprintf("%s: output %q for rows %v differs from the batch result restricted to those rows at element %d (%v vs %v)", what, name, rows, i, f64s(got)[i], f64s(want)[i])
		}
	}
	return ""
}

func (bm *batchModel) checkAll(rt *rapid.T, feed gonnx.Tensors, n int) (string, bool) {
	full := runModel(bm.m, feed)
	if full.panicked {
		return fmt.Sprintf("Run on the batch panics: %v", full.panicVal), true
	}
	if full.err != nil {
		return "", false // the batch itself is refused: nothing to relate (counted as a class)
	}
	for name, t := range full.outs {
		if t == nil {
			return fmt.Sprintf("output %q is nil", name), true
		}
		if bm.outBatch[name] >= 0 && t.Shape()[bm.outBatch[name]] != n {
			return fmt.Sprintf("output %q has shape %v: extent %d along its batch axis %d for a batch of %d", name, t.Shape(), t.Shape()[bm.outBatch[name]], bm.outBatch[name], n), true
		}
	}
	for i := 0; i < n; i++ {
		if v := bm.checkRelation(full.outs, feed, []int{i}, "sample alone"); v != "" {
			return v, true
		}
	}
	if n >= 2 {
		perm := rapid.Permutation(seq(n)).Draw(rt, "perm")
		if v := bm.checkRelation(full.outs, feed, perm, "permuted batch"); v != "" {
			return v, true
		}
		var sel []int
		for i := 0; i < n; i++ {
			if rapid.Bool().Draw(rt, "select") {
				sel = append(sel, i)
			}
		}
		if len(sel) == 0 {
			sel = []int{n - 1}
		}
		if v := bm.checkRelation(full.outs, feed, sel, "sub-selection"); v != "" {
			return v, true
		}
	}
	return "", true
}

func TestC16(t *testing.T) {
	ev.Begin("C16",
		"rapid: (a) the sample models mlp, gru, scaler (and ndm, limited) with batch sizes 1..6, sequence lengths 1..4 and drawn data; (b) generated per-sample models of 1..8 nodes (Gemm/MatMul against weights, Conv, RNN/GRU/LSTM behind a Transpose with caller-supplied initial state, elementwise operators with weights broadcast over the batch axis, activations, Softmax/LogSoftmax/ReduceMax/ReduceMin over non-batch axes, Flatten(axis=1), Reshape with 0/-1 in the batch position, Squeeze/Unsqueeze/Gather/Concat/Transpose on tracked axes; continuous operators only). Relations: every row alone, a drawn permutation, a drawn sub-selection versus the batch result restricted to those rows. "+
			"Non-trivial = N >= 2 and the model contains an operator that mixes along a non-batch axis. Distinct = (model, N, input bits).",
		"tolerance |a-b| <= 1e-5*max(1,|a|,|b|)*nodes (BLAS may block a 1-row and an N-row product differently); the generator tracks the batch axis of every value")
	defer reportKnownFindings("C16")

	// vacuity guard: a model that normalises over the batch axis must be flagged by the relation
	t.Run("relation-is-not-vacuous", func(t *testing.T) {
		g := &onnx.GraphProto{
			Input:  []*onnx.ValueInfoProto{valueInfo("x", 1, "N", 3)},
			Output: []*onnx.ValueInfoProto{valueInfoNoShape("y")},
			Node:   []*onnx.NodeProto{mkNode("Softmax", []string{"x"}, []string{"y"}, attrI("axis", 0))},
		}
		lr := loadBytes(marshalModel(mkModel(g, 13)))
		if lr.err != nil || lr.panicked {
			t.Fatalf("VERIF-INCONCLUSIVE guard model does not load: %v", lr.err)
		}
		bm := &batchModel{desc: "softmax-over-batch", m: lr.m, inBatch: map[string]int{"x": 0}, outBatch: map[string]int{"y": 0}, depth: 1}
		feed := gonnx.Tensors{"x": mkT([]int{3, 3}, []float32{1, 2, 3, 0, -1, 2, 0.5, 0.25, 4})}
		full := runModel(bm.m, feed)
		if v := bm.checkRelation(full.outs, feed, []int{1}, "guard"); v == "" {
			t.Fatalf("VERIF-INCONCLUSIVE the batch relation accepts a model that mixes samples (Softmax over the batch axis): the check would be vacuous")
		}
		ev.Class("guard", "softmax-over-batch-axis-flagged")
	})

	check(t, "sample-models", 600, 3000, func(rt *rapid.T) {
		sms := sampleModels()
		names := []string{"gru", "gru", "mlp", "scaler"}
		if rapid.IntRange(0, 19).Draw(rt, "ndm") == 0 {
			names = []string{"ndm"}
		}
		sm := sms[rapid.SampledFrom(names).Draw(rt, "model")]
		if sm == nil {
			rt.Skip("sample model not available")
		}
		lr := loadBytes(sm.bytes)
		if lr.err != nil || lr.panicked {
			rt.Fatalf("C16: sample model %s does not load: %v", sm.name, lr.err)
		}
		n := rapid.SampledFrom([]int{1, 1, 2, 2, 3, 3, 4, 5, 6, 9, 17, 33}).Draw(rt, "N")
		s := rapid.SampledFrom([]int{1, 1, 2, 2, 3, 4, 4, 9, 33, 40}).Draw(rt, "seq")
		if sm.name == "ndm" {
			n = rapid.IntRange(1, 3).Draw(rt, "Nndm")
		}
		feed := sm.feed(rt, n, s)
		bm := &batchModel{desc: "sample:" + sm.name, m: lr.m, inBatch: map[string]int{}, outBatch: sm.outBatch, depth: 20}
		for _, in := range sm.inNames {
			bm.inBatch[in] = sm.batchAxis(in)
		}
		desc := fmt.Sprintf("%s N=%d seq=%d #%x", sm.name, n, s, hashFeed(feed))
		ev.Case("sample-models", desc, n >= 2, "model-"+sm.name, fmt.Sprintf("N=%d", n))
		if v, _ := bm.checkAll(rt, feed, n); v != "" {
			rt.Fatalf("C16 violated by %s: %s", desc, v)
		}
	})

	check(t, "wide-range", 1500, 12000, c16WideRange)

	check(t, "generated", 2000, 15000, func(rt *rapid.T) {
		gg := genGraph(rt, ggOpts{maxNodes: 8, perSample: true, continuousOnly: true, allOutputs: rapid.Bool().Draw(rt, "allOutputs")})
		mp := gg.model(rt)
		lr := loadBytes(marshalModel(mp))
		if lr.err != nil || lr.panicked {
			rt.Fatalf("C16: generated model does not load: %v %v: %v", lr.err, lr.panicVal, gg)
		}
		n := rapid.SampledFrom([]int{1, 1, 2, 2, 3, 3, 4, 5, 2, 3, 9, 17, 33, 40}).Draw(rt, "N")
		feed := gg.feed(rt, n)
		bm := &batchModel{desc: gg.String(), m: lr.m, inBatch: map[string]int{}, outBatch: map[string]int{}, depth: len(gg.nodes) + 1, unitRecurrent: gg.feats["recurrent-input-size-1"] > 0,
			unitMatMul: gg.feats["matmul-unit-matrix-for-single-sample"] > 0}
		for _, in := range gg.inputs {
			bm.inBatch[in.name] = in.batch
		}
		declared := map[string]bool{}
		for _, o := range mp.Graph.Output {
			declared[o.Name] = true
		}
		for _, v := range gg.pool {
			if declared[v.name] {
				bm.outBatch[v.name] = v.batch
			}
		}
		desc := fmt.Sprintf("%v N=%d #%x", gg, n, hashFeed(feed))
		cls := []string{fmt.Sprintf("N=%d", n), fmt.Sprintf("nodes-%d", len(gg.nodes))}
		for f := range gg.feats {
			if len(f) > 3 && f[:3] == "op-" {
				cls = append(cls, f)
			}
		}
		if gg.mixing {
			cls = append(cls, "mixing-operator")
		}
		v, computed := bm.checkAll(rt, feed, n)
		if !computed {
			cls = append(cls, "batch-refused")
		}
		ev.Case("generated", desc, n >= 2 && gg.mixing && computed, cls...)
		if v != "" {
			rt.Fatalf("C16 violated by %s: %s", desc, v)
		}
	})
}

// c16WideRange: per-sample normalising and saturating operators (Softmax, LogSoftmax, Sigmoid,
// Tanh, ReduceMax/Min over non-batch axes) on inputs whose magnitudes differ by far more than the
// range of exp(): an implementation that shares a maximum, a scale or a code path between the
// samples of a batch (or picks a kernel by the batch size) overflows for one of the two evaluations.
func c16WideRange(rt *rapid.T) {
	rank := rapid.IntRange(2, 4).Draw(rt, "rank")
	n := rapid.SampledFrom([]int{1, 2, 2, 3, 4, 5, 9, 17}).Draw(rt, "N")
	shape := []int{n}
	for i := 1; i < rank; i++ {
		shape = append(shape, rapid.IntRange(1, 5).Draw(rt, "extent"))
	}
	vals := drawMany(prod(shape), func() float64 {
		sign := float64(rapid.SampledFrom([]int{-1, 1}).Draw(rt, "sign"))
		switch rapid.IntRange(0, 5).Draw(rt, "magnitude") {
		case 0:
			return sign * float64(rapid.IntRange(50, 300).Draw(rt, "tens"))
		case 1:
			return sign * float64(rapid.IntRange(1000, 20000).Draw(rt, "thousands"))
		case 2:
			return sign * 1e30
		}
		return sign * float64(rapid.IntRange(0, 64).Draw(rt, "small")) / 16
	})
	wdt, welem := tensor.Float32, int32(1)
	if rapid.IntRange(0, 2).Draw(rt, "float64") == 0 {
		wdt, welem = tensor.Float64, 11
	}
	x := toDtype(wdt, shape, vals)
	op := rapid.SampledFrom([]string{"Softmax", "Softmax", "LogSoftmax", "LogSoftmax", "Sigmoid", "Tanh", "ReduceMax", "ReduceMin"}).Draw(rt, "op")
	axis := rapid.IntRange(1, rank-1).Draw(rt, "axis")
	spelled := int64(axis)
	if rapid.Bool().Draw(rt, "negAxis") {
		spelled = int64(axis - rank)
	}
	var attrs []*onnx.AttributeProto
	switch op {
	case "Softmax", "LogSoftmax":
		if !(axis == rank-1 && rapid.Bool().Draw(rt, "defaultAxis")) {
			attrs = append(attrs, attrI("axis", spelled))
		}
	case "ReduceMax", "ReduceMin":
		attrs = append(attrs, attrInts("axes", spelled), attrI("keepdims", int64(rapid.IntRange(0, 1).Draw(rt, "keepdims"))))
	}
	dims := []any{"N"}
	for _, d := range shape[1:] {
		dims = append(dims, d)
	}
	g := &onnx.GraphProto{Input: []*onnx.ValueInfoProto{valueInfo("x", welem, dims...)}, Output: []*onnx.ValueInfoProto{valueInfoNoShape("y")}}
	in := "x"
	if rapid.Bool().Draw(rt, "scaled") {
		// a per-feature scale in front (elementwise, exact for powers of two)
		w := make([]float32, shape[rank-1])
		for i := range w {
			w[i] = rapid.SampledFrom([]float32{0.5, 1, 2, -1, -2}).Draw(rt, "scale")
		}
		g.Initializer = append(g.Initializer, protoOf("w", toDtype(wdt, []int{shape[rank-1]}, f32sTo64(w))))
		g.Node = append(g.Node, mkNode("Mul", []string{"x", "w"}, []string{"xs"}))
		in = "xs"
	}
	g.Node = append(g.Node, mkNode(op, []string{in}, []string{"y"}, attrs...))
	lr := loadBytes(marshalModel(mkModel(g, 13)))
	if lr.err != nil || lr.panicked {
		rt.Fatalf("C16: wide-range model does not load: %v %v", lr.err, lr.panicVal)
	}
	bm := &batchModel{desc: "wide-range " + op, m: lr.m, inBatch: map[string]int{"x": 0}, outBatch: map[string]int{"y": 0}, depth: 2}
	feed := gonnx.Tensors{"x": x}
	desc := fmt.Sprintf("%s%s on %v N=%d #%x", op, descNode(g.Node[len(g.Node)-1]), shape, n, hashFeed(feed))
	v, computed := bm.checkAll(rt, feed, n)
	cls := []string{"wide-" + op, fmt.Sprintf("N=%d", n), fmt.Sprintf("rank-%d", rank), "wide-" + wdt.String()}
	if !computed {
		cls = append(cls, "batch-refused")
	}
	ev.Case("wide-range", desc, n >= 2 && computed, cls...)
	if v != "" {
		rt.Fatalf("C16 violated by %s: %s", desc, v)
	}
}

func hashFeed(feed gonnx.Tensors) uint64 {
	h := uint64(7)
	for _, k := range sortedKeys(feed) {
		h = h*31 + hash64(k) + hashBits(bitsAll(feed[k]))
	}
	return h
}

var _ = tensor.Float32

func init() {
	kfRepro["KF-C16-matmul-single-sample-unit-matrix"] = func() (bool, string) {
		w := mkT([]int{1, 2}, []float32{2, 3})
		two := runOp("MatMul", mkNode("MatMul", nil, nil), []tensor.Tensor{mkT([]int{1, 2, 1}, []float32{1, 2}), w})
		one := runOp("MatMul", mkNode("MatMul", nil, nil), []tensor.Tensor{mkT([]int{1, 1, 1}, []float32{1}), cloneT(w)})
		return two.ok() && !one.ok(), fmt.Sprintf("MatMul((1,N,1),(1,2)): N=2 -> %v; N=1 -> %v", two, one)
	}
	kfRepro["KF-C16-recurrent-single-sample-unit-input"] = func() (bool, string) {
		c := rnnCase{kind: "RNN", S: 2, B: 2, I: 1, H: 2, dt: tensor.Float32, lbr: -1, inputForget: -1, explicitNil: true}
		c.X, c.W, c.R = []float32{1, 2, 3, 4}, []float32{0.5, -0.5}, []float32{0.25, 0.5, -0.25, 0.125}
		two := runOp("RNN", c.node(), c.inputs())
		c1 := c
		c1.B, c1.X = 1, []float32{1, 3}
		one := runOp("RNN", c1.node(), c1.inputs())
		return two.ok() && !one.ok(), fmt.Sprintf("RNN(input_size=1): batch of 2 -> %v; first sample alone -> %v", two, one)
	}
}
