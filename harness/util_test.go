package harness

// Tensor utilities: construction for any dtype and rank (including rank 0), row-major element
// access that is independent of views/strides, deep snapshots, comparison helpers.

import (
	"fmt"
	"math"
	"reflect"
	"runtime"
	"strings"
	"sync"

	"gorgonia.org/tensor"
)

func prod(s []int) int {
	n := 1
	for _, d := range s {
		n *= d
	}
	return n
}

func cloneInts(s []int) []int { return append([]int{}, s...) }

func eqInts(a, b []int) bool {
	if len(a) != len(b) {
		return false
	}
	for i := range a {
		if a[i] != b[i] {
			return false
		}
	}
	return true
}

// mkT builds a dense tensor of the given shape over backing (a Go slice of the element type with
// prod(shape) elements). Rank 0 gives a scalar tensor, the way gonnx itself represents them.
func mkT(shape []int, backing any) tensor.Tensor {
	rv := reflect.ValueOf(backing)
	if rv.Kind() != reflect.Slice {
		panic("mkT: backing must be a slice")
	}
	if rv.Len() != prod(shape) {
		panic(fmt.Sprintf("mkT: %d elements for shape %v", rv.Len(), shape))
	}
	if len(shape) == 0 {
		return tensor.New(tensor.FromScalar(rv.Index(0).Interface()))
	}
	// fresh copy so the caller's slice is never shared
	cp := reflect.MakeSlice(rv.Type(), rv.Len(), rv.Len())
	reflect.Copy(cp, rv)
	t := tensor.New(tensor.WithShape(shape...), tensor.WithBacking(cp.Interface()))
	// gorgonia turns the slice into a uintptr and back (storage.AsByteSlice): until the tensor holds
	// it as a real pointer the copy must stay reachable, or a collection in that window frees it
	runtime.KeepAlive(cp)
	return t
}

// backingOf makes a slice of dt with n elements, element i = conv(f(i)).
func backingOf(dt tensor.Dtype, n int, f func(i int) float64) any {
	s := reflect.MakeSlice(reflect.SliceOf(dt.Type), n, n)
	for i := 0; i < n; i++ {
		setNum(s.Index(i), f(i))
	}
	return s.Interface()
}

// immortal interns s in a table that lives as long as the process. gorgonia allocates every
// tensor's memory as []byte, which the Go collector does not scan: the string headers of a String
// tensor (every clone, every broadcast copy) are invisible to it, so the bytes of a heap-allocated
// string held only by tensors can be freed and the process then dies in the collector with "found
// pointer to free object" once the dangling header is copied back into scanned memory. Strings
// that are never freed cannot dangle.
var (
	immortalMu sync.Mutex
	immortals  = map[string]string{}
)

func immortal(s string) string {
	immortalMu.Lock()
	defer immortalMu.Unlock()
	if k, ok := immortals[s]; ok {
		return k
	}
	immortals[s] = s
	return s
}

func setNum(v reflect.Value, x float64) {
	switch v.Kind() {
	case reflect.Float32, reflect.Float64:
		v.SetFloat(x)
	case reflect.Int, reflect.Int8, reflect.Int16, reflect.Int32, reflect.Int64:
		v.SetInt(int64(x))
	case reflect.Uint, reflect.Uint8, reflect.Uint16, reflect.Uint32, reflect.Uint64:
		v.SetUint(uint64(x))
	case reflect.Bool:
		v.SetBool(int64(x)%2 != 0)
	case reflect.Complex64, reflect.Complex128:
		v.SetComplex(complex(x, 0))
	case reflect.String:
		v.SetString(immortal(fmt.Sprint(x)))
	default:
		panic("setNum: " + v.Kind().String())
	}
}

// rangeT: tensor with contents 0,1,2,... (so element order is observable).
func rangeT(dt tensor.Dtype, shape []int) tensor.Tensor {
	return mkT(shape, backingOf(dt, prod(shape), func(i int) float64 { return float64(i) }))
}

// rangeSpecialT: like rangeT, but for float element types a few elements carry bit patterns that
// only a bit-exact copy preserves (-0, a quiet and a signalling NaN with payloads, subnormal).
func rangeSpecialT(dt tensor.Dtype, shape []int, salt int) tensor.Tensor {
	t := rangeT(dt, shape)
	n := prod(shape)
	if n == 0 || !isFloat(dt) {
		return t
	}
	set := func(i int, b32 uint32, b64 uint64) {
		if dt == tensor.Float32 {
			v := math.Float32frombits(b32)
			if len(shape) == 0 {
				t = tensor.New(tensor.FromScalar(v))
				return
			}
			t.Data().([]float32)[i%n] = v
			return
		}
		v := math.Float64frombits(b64)
		if len(shape) == 0 {
			t = tensor.New(tensor.FromScalar(v))
			return
		}
		t.Data().([]float64)[i%n] = v
	}
	switch salt % 4 {
	case 0:
		set(salt/4, 0x80000000, 0x8000000000000000) // -0
	case 1:
		set(salt/4, 0x7fa00001, 0x7ff4000000000001) // signalling NaN with payload
		set(salt/4+1, 0x80000000, 0x8000000000000000)
	case 2:
		set(salt/4, 0xffc12345, 0xfff8000000012345) // quiet NaN with payload
		set(salt/4+2, 0x00000001, 0x0000000000000001)
	}
	return t
}

func stdStrides(shape []int) []int {
	st := make([]int, len(shape))
	acc := 1
	for i := len(shape) - 1; i >= 0; i-- {
		st[i] = acc
		acc *= shape[i]
	}
	return st
}

// elems returns the elements of t in row-major (logical) order as a reflect slice, regardless of
// whether t is a scalar, a view, transposed or has unusual strides.
func elems(t tensor.Tensor) reflect.Value {
	if t.IsScalar() && len(t.Shape()) == 0 {
		v := reflect.ValueOf(t.ScalarValue())
		s := reflect.MakeSlice(reflect.SliceOf(v.Type()), 1, 1)
		s.Index(0).Set(v)
		return s
	}
	shape := t.Shape()
	n := prod(shape)
	if n == 0 {
		// a length-0 tensor (e.g. Shape of a rank-0 input): gorgonia cannot expose its data
		return reflect.MakeSlice(reflect.SliceOf(t.Dtype().Type), 0, 0)
	}
	data := reflect.ValueOf(t.Data())
	if data.Kind() == reflect.Slice && data.Len() == n && !t.RequiresIterator() && eqInts(t.Strides(), stdStrides(shape)) {
		return data
	}
	if data.Kind() != reflect.Slice {
		// single element held as a scalar value although shape has rank > 0
		s := reflect.MakeSlice(reflect.SliceOf(data.Type()), 1, 1)
		s.Index(0).Set(data)
		if n == 1 {
			return s
		}
	}
	out := reflect.MakeSlice(reflect.SliceOf(t.Dtype().Type), n, n)
	idx := make([]int, len(shape))
	for i := 0; i < n; i++ {
		v, err := t.At(idx...)
		if err != nil {
			panic(fmt.Sprintf("elems: At(%v) on shape %v: %v", idx, shape, err))
		}
		out.Index(i).Set(reflect.ValueOf(v))
		for a := len(shape) - 1; a >= 0; a-- {
			idx[a]++
			if idx[a] < shape[a] {
				break
			}
			idx[a] = 0
		}
	}
	return out
}

// f64s returns the elements as float64 (numeric and bool dtypes).
func f64s(t tensor.Tensor) []float64 {
	e := elems(t)
	out := make([]float64, e.Len())
	for i := range out {
		out[i] = numOf(e.Index(i))
	}
	return out
}

func numOf(v reflect.Value) float64 {
	switch v.Kind() {
	case reflect.Float32, reflect.Float64:
		return v.Float()
	case reflect.Int, reflect.Int8, reflect.Int16, reflect.Int32, reflect.Int64:
		return float64(v.Int())
	case reflect.Uint, reflect.Uint8, reflect.Uint16, reflect.Uint32, reflect.Uint64:
		return float64(v.Uint())
	case reflect.Bool:
		if v.Bool() {
			return 1
		}
		return 0
	case reflect.Complex64, reflect.Complex128:
		return real(v.Complex())
	}
	panic("numOf: " + v.Kind().String())
}

// bitsOf maps one element to a canonical 64-bit pattern (exact identity, NaN payloads included).
func bitsOf(v reflect.Value) uint64 {
	switch v.Kind() {
	case reflect.Float32:
		return uint64(math.Float32bits(v.Interface().(float32)))
	case reflect.Float64:
		return math.Float64bits(v.Float())
	case reflect.Int, reflect.Int8, reflect.Int16, reflect.Int32, reflect.Int64:
		return uint64(v.Int())
	case reflect.Uint, reflect.Uint8, reflect.Uint16, reflect.Uint32, reflect.Uint64:
		return v.Uint()
	case reflect.Bool:
		if v.Bool() {
			return 1
		}
		return 0
	case reflect.Complex64, reflect.Complex128:
		c := v.Complex()
		return math.Float64bits(real(c))*31 ^ math.Float64bits(imag(c))
	case reflect.String:
		return hash64(v.String())
	}
	panic("bitsOf: " + v.Kind().String())
}

func bitsAll(t tensor.Tensor) []uint64 {
	e := elems(t)
	out := make([]uint64, e.Len())
	for i := range out {
		out[i] = bitsOf(e.Index(i))
	}
	return out
}

// snapshot is a deep, independent record of a tensor object: everything a later in-place change
// could alter.
type snapshot struct {
	shape, strides []int
	dtype          string
	raw            []uint64 // the raw backing array (not the logical view)
	scalar         bool
}

func snap(t tensor.Tensor) snapshot {
	s := snapshot{shape: cloneInts(t.Shape()), strides: cloneInts(t.Strides()), dtype: t.Dtype().String(), scalar: t.IsScalar()}
	if t.Shape().TotalSize() == 0 && !t.IsScalar() {
		return s // an empty tensor: gorgonia's Data() panics on a zero-length backing
	}
	d := reflect.ValueOf(t.Data())
	if d.Kind() == reflect.Slice {
		s.raw = make([]uint64, d.Len())
		for i := range s.raw {
			s.raw[i] = bitsOf(d.Index(i))
		}
	} else {
		s.raw = []uint64{bitsOf(d)}
	}
	return s
}

func (a snapshot) diff(b snapshot) string {
	if !eqInts(a.shape, b.shape) {
		return fmt.Sprintf("shape %v -> %v", a.shape, b.shape)
	}
	if !eqInts(a.strides, b.strides) {
		return fmt.Sprintf("strides %v -> %v", a.strides, b.strides)
	}
	if a.dtype != b.dtype {
		return fmt.Sprintf("dtype %s -> %s", a.dtype, b.dtype)
	}
	if a.scalar != b.scalar {
		return "scalar-ness changed"
	}
	if len(a.raw) != len(b.raw) {
		return fmt.Sprintf("backing length %d -> %d", len(a.raw), len(b.raw))
	}
	for i := range a.raw {
		if a.raw[i] != b.raw[i] {
			return fmt.Sprintf("element %d bits %#x -> %#x", i, a.raw[i], b.raw[i])
		}
	}
	return ""
}

// sameBits: two tensors are identical in shape, dtype and every element's bit pattern.
func sameBits(a, b tensor.Tensor) string {
	if a == nil || b == nil {
		if a == nil && b == nil {
			return ""
		}
		return fmt.Sprintf("nil-ness differs (%v vs %v)", a == nil, b == nil)
	}
	if !eqInts(a.Shape(), b.Shape()) {
		return fmt.Sprintf("shape %v vs %v", a.Shape(), b.Shape())
	}
	if a.Dtype() != b.Dtype() {
		return fmt.Sprintf("dtype %v vs %v", a.Dtype(), b.Dtype())
	}
	x, y := bitsAll(a), bitsAll(b)
	for i := range x {
		if x[i] != y[i] {
			return fmt.Sprintf("element %d: %#x vs %#x", i, x[i], y[i])
		}
	}
	return ""
}

// sameValues: like sameBits but NaN == NaN of any payload and -0 == +0 for floats.
func sameValues(a, b tensor.Tensor) string {
	if a == nil || b == nil {
		if a == nil && b == nil {
			return ""
		}
		return fmt.Sprintf("nil-ness differs (%v vs %v)", a == nil, b == nil)
	}
	if !eqInts(a.Shape(), b.Shape()) {
		return fmt.Sprintf("shape %v vs %v", a.Shape(), b.Shape())
	}
	if a.Dtype() != b.Dtype() {
		return fmt.Sprintf("dtype %v vs %v", a.Dtype(), b.Dtype())
	}
	x, y := elems(a), elems(b)
	for i := 0; i < x.Len(); i++ {
		if !eqElem(x.Index(i), y.Index(i)) {
			return fmt.Sprintf("element %d: %v vs %v", i, x.Index(i).Interface(), y.Index(i).Interface())
		}
	}
	return ""
}

func eqElem(a, b reflect.Value) bool {
	switch a.Kind() {
	case reflect.Float32, reflect.Float64:
		x, y := a.Float(), b.Float()
		return x == y || (math.IsNaN(x) && math.IsNaN(y))
	}
	return bitsOf(a) == bitsOf(b)
}

func cloneT(t tensor.Tensor) tensor.Tensor {
	if t == nil {
		return nil
	}
	return t.Clone().(tensor.Tensor)
}

func cloneTs(ts []tensor.Tensor) []tensor.Tensor {
	out := make([]tensor.Tensor, len(ts))
	for i, t := range ts {
		out[i] = cloneT(t)
	}
	return out
}

// descT is a short canonical description of a tensor for samples and hashes.
func descT(t tensor.Tensor) string {
	if t == nil {
		return "nil"
	}
	e := elems(t)
	var sb strings.Builder
	fmt.Fprintf(&sb, "%v%v[", t.Dtype(), t.Shape())
	n := e.Len()
	for i := 0; i < n && i < 12; i++ {
		if i > 0 {
			sb.WriteByte(' ')
		}
		fmt.Fprintf(&sb, "%v", e.Index(i).Interface())
	}
	if n > 12 {
		fmt.Fprintf(&sb, " …+%d #%x", n-12, hashBits(bitsAll(t)))
	}
	sb.WriteByte(']')
	return sb.String()
}

func hashBits(b []uint64) uint64 {
	h := uint64(1469598103934665603)
	for _, x := range b {
		h ^= x
		h *= 1099511628211
	}
	return h
}

func ulp32(x float64) float64 {
	f := float32(math.Abs(x))
	if math.IsInf(float64(f), 0) || math.IsNaN(float64(f)) {
		return math.Inf(1)
	}
	n := math.Nextafter32(f, float32(math.Inf(1)))
	if math.IsInf(float64(n), 0) {
		return float64(f) - float64(math.Nextafter32(f, 0))
	}
	return float64(n) - float64(f)
}

func ulp64(x float64) float64 {
	f := math.Abs(x)
	if math.IsInf(f, 0) || math.IsNaN(f) {
		return math.Inf(1)
	}
	n := math.Nextafter(f, math.Inf(1))
	if math.IsInf(n, 0) {
		return f - math.Nextafter(f, 0)
	}
	return n - f
}

// unravel converts a flat row-major offset to a multi-index.
func unravel(off int, shape []int) []int {
	idx := make([]int, len(shape))
	for a := len(shape) - 1; a >= 0; a-- {
		idx[a] = off % shape[a]
		off /= shape[a]
	}
	return idx
}

func ravel(idx, shape []int) int {
	off := 0
	for a := range shape {
		off = off*shape[a] + idx[a]
	}
	return off
}

// bcastShape: NumPy/ONNX multidirectional broadcast shape; ok=false if incompatible.
func bcastShape(a, b []int) ([]int, bool) {
	n := len(a)
	if len(b) > n {
		n = len(b)
	}
	out := make([]int, n)
	for i := 0; i < n; i++ {
		da, db := 1, 1
		if k := len(a) - n + i; k >= 0 {
			da = a[k]
		}
		if k := len(b) - n + i; k >= 0 {
			db = b[k]
		}
		switch {
		case da == db:
			out[i] = da
		case da == 1:
			out[i] = db
		case db == 1:
			out[i] = da
		default:
			return nil, false
		}
	}
	return out, true
}

// bcastIndex: flat offset into a source of shape src for the element at result index idx
// (result shape has rank >= len(src); stretched axes pinned to 0).
func bcastIndex(idx []int, src []int) int {
	off := 0
	d := len(idx) - len(src)
	for a := range src {
		i := idx[a+d]
		if src[a] == 1 {
			i = 0
		}
		off = off*src[a] + i
	}
	return off
}

// mismatches returns a header difference (shape/dtype/nil) or the flat indices of elements whose
// values differ (NaN == NaN, -0 == +0).
func mismatches(got, want tensor.Tensor) (string, []int) {
	if got == nil || want == nil {
		if got == nil && want == nil {
			return "", nil
		}
		return fmt.Sprintf("nil-ness differs (%v vs %v)", got == nil, want == nil), nil
	}
	if !eqInts(got.Shape(), want.Shape()) {
		return fmt.Sprintf("shape %v, want %v", got.Shape(), want.Shape()), nil
	}
	if got.Dtype() != want.Dtype() {
		return fmt.Sprintf("dtype %v, want %v", got.Dtype(), want.Dtype()), nil
	}
	x, y := elems(got), elems(want)
	var idx []int
	for i := 0; i < x.Len(); i++ {
		if !eqElem(x.Index(i), y.Index(i)) {
			idx = append(idx, i)
		}
	}
	return "", idx
}

// approxSame: shape and dtype exact; integer, bool and other non-float elements exact; float
// elements equal, both NaN, or within rel*max(1,|a|,|b|) ("up to floating-point rounding").
func approxSame(a, b tensor.Tensor, rel float64) string {
	if a == nil || b == nil {
		if a == nil && b == nil {
			return ""
		}
		return fmt.Sprintf("nil-ness differs (%v vs %v)", a == nil, b == nil)
	}
	if !eqInts(a.Shape(), b.Shape()) {
		return fmt.Sprintf("shape %v vs %v", a.Shape(), b.Shape())
	}
	if a.Dtype() != b.Dtype() {
		return fmt.Sprintf("dtype %v vs %v", a.Dtype(), b.Dtype())
	}
	if !isFloat(a.Dtype()) {
		return sameValues(a, b)
	}
	x, y := f64s(a), f64s(b)
	for i := range x {
		if x[i] == y[i] || (math.IsNaN(x[i]) && math.IsNaN(y[i])) {
			continue
		}
		if !(math.Abs(x[i]-y[i]) <= rel*math.Max(1, math.Max(math.Abs(x[i]), math.Abs(y[i])))) {
			return fmt.Sprintf("element %d: %v vs %v", i, x[i], y[i])
		}
	}
	return ""
}
