package harness

// Known findings: genuine defects of gonnx that are recorded in /verif/known_findings.json instead
// of being repaired. A finding is only honoured while it is listed there with status "open"; the
// file is never written at run time. Each finding has (1) a narrow predicate, applied by the check
// that owns it to a deviating case (accept-both: specification OR exactly this deviation), and
// (2) a pinned reproducer that tells the driver whether the defect is still present, so that one
// "KNOWN-FINDING:" line is printed per open finding that still deviates.

import (
	"encoding/json"
	"fmt"
	"os"
	"path/filepath"
	"sort"
	"strings"
)

// pinnedFailed makes the test binary exit non-zero (checked in TestMain).
var pinnedFailed bool

func writeFailNote(property, id, detail string) string {
	dir := os.Getenv("VERIF_FAIL_DIR")
	if dir == "" {
		dir = os.TempDir()
	}
	p := filepath.Join(dir, fmt.Sprintf("%s-pinned-%s.txt", property, id))
	_ = os.WriteFile(p, []byte(id+": "+detail+"\n"), 0o644)
	fmt.Printf("VERIF-FAILCASE %s\n", p)
	return p
}

type knownFinding struct {
	ID         string `json:"id"`
	Property   string `json:"property"`
	Status     string `json:"status"`
	Where      string `json:"where"`
	InputClass string `json:"input_class"`
	Deviation  string `json:"deviation"`
	Reproducer string `json:"reproducer"`
}

type knownFindingsFile struct {
	Findings []knownFinding `json:"findings"`
	Fixed    []string       `json:"fixed"`
}

var kfAll = map[string]knownFinding{}

func loadKnownFindings() {
	path := os.Getenv("VERIF_KF_FILE")
	if path == "" {
		path = "/verif/known_findings.json"
	}
	b, err := os.ReadFile(path)
	if err != nil {
		return
	}
	var f knownFindingsFile
	if err := json.Unmarshal(b, &f); err != nil {
		fmt.Printf("VERIF-INCONCLUSIVE cannot parse %s: %v\n", path, err)
		os.Exit(2)
	}
	for _, k := range f.Findings {
		kfAll[k.ID] = k
	}
}

// kfOpen reports whether finding id is listed as open. A check may accept a deviating case under a
// finding's predicate only if kfOpen(id); the hit is then counted in the evidence.
func kfOpen(id string) bool {
	k, ok := kfAll[id]
	return ok && k.Status == "open"
}

// kfAccept is the usual pattern: predicate already evaluated to true by the caller.
func kfAccept(id string) bool {
	if kfOpen(id) {
		ev.KF(id)
		return true
	}
	return false
}

// kfRepro maps finding id -> pinned reproducer; returns true while gonnx still deviates.
var kfRepro = map[string]func() (bool, string){}

// pinnedRegressions: reproducers of defects that were repaired in /repo (see "fixed" in
// known_findings.json). They form the replay tier: plain cases that bypass generation and must
// hold; a reproducer that deviates again is a violation, whatever the generated search finds.
var pinnedRegressions = map[string]func() (bool, string){}

// reportKnownFindings prints the status of every open finding of a property and returns the
// repaired defects of that property whose pinned reproducer deviates again.
func reportKnownFindings(property string) {
	var ids []string
	for id, k := range kfAll {
		if k.Property == property && k.Status == "open" {
			ids = append(ids, id)
		}
	}
	sort.Strings(ids)
	// repaired defects: every reproducer registered for this property that is not an open finding
	var pinned []string
	for id := range kfRepro {
		if strings.HasPrefix(id, "KF-"+property+"-") && !kfOpen(id) {
			pinned = append(pinned, id)
		}
	}
	for id := range pinnedRegressions {
		if strings.HasPrefix(id, property+"-") {
			pinned = append(pinned, id)
		}
	}
	sort.Strings(pinned)
	for _, id := range pinned {
		f := kfRepro[id]
		if f == nil {
			f = pinnedRegressions[id]
		}
		dev, detail := func() (d bool, s string) {
			defer func() {
				if r := recover(); r != nil {
					d, s = true, fmt.Sprintf("reproducer panicked: %v", r)
				}
			}()
			return f()
		}()
		ev.Class("pinned", id)
		if dev {
			p := writeFailNote(property, id, detail)
			fmt.Printf("VERIF-VIOLATION pinned regression case %s of a repaired defect deviates again: %s (%s)\n", id, detail, p)
			pinnedFailed = true
		}
	}
	for _, id := range ids {
		f, ok := kfRepro[id]
		if !ok {
			fmt.Printf("KF-STATUS id=%s deviates=unknown no pinned reproducer\n", id)
			continue
		}
		dev, detail := func() (d bool, s string) {
			defer func() {
				if r := recover(); r != nil {
					d, s = true, fmt.Sprintf("reproducer panicked: %v", r)
				}
			}()
			return f()
		}()
		fmt.Printf("KF-STATUS id=%s deviates=%v %s\n", id, dev, detail)
	}
}
