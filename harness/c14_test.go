package harness

// C14 — Broadcast helpers implement ONNX multi- and unidirectional broadcasting.
// Bounded-exhaustive enumeration of all ordered shape pairs (rank 0..4, extents 1..4 quick /
// 1..5 thorough) plus rapid-generated larger shapes over all element types.

import (
	"encoding/json"
	"fmt"
	"os"
	"path/filepath"
	"testing"

	"github.com/advancedclimatesystems/gonnx/ops"
	"gorgonia.org/tensor"
	"pgregory.net/rapid"
)

func allShapes(maxRank, maxExt int) [][]int {
	res := [][]int{{}}
	cur := [][]int{{}}
	for r := 1; r <= maxRank; r++ {
		var nxt [][]int
		for _, s := range cur {
			for e := 1; e <= maxExt; e++ {
				nxt = append(nxt, append(cloneInts(s), e))
			}
		}
		res = append(res, nxt...)
		cur = nxt
	}
	return res
}

type c14Case struct {
	Helper string `json:"helper"` // multi | uni
	A      []int  `json:"a"`
	B      []int  `json:"b"`
	Dtype  string `json:"dtype"`
	// Special > 0: float sources carry bit patterns that only an exact copy preserves (-0, NaN payloads)
	Special int `json:"special,omitempty"`
}

func dtypeByName(name string) tensor.Dtype {
	for _, d := range ops.AllTypes {
		if d.String() == name {
			return d
		}
	}
	panic("unknown dtype " + name)
}

// c14Check runs one case; returns "" or the violation text. classes receives labels.
func c14Check(c c14Case) (viol string, class string) {
	dt := dtypeByName(c.Dtype)
	// distinct contents for A and B so that a swap is visible
	A := mkT(c.A, backingOf(dt, prod(c.A), func(i int) float64 { return float64(i + 1) }))
	B := mkT(c.B, backingOf(dt, prod(c.B), func(i int) float64 { return float64(100 + i) }))
	if c.Special > 0 && isFloat(dt) {
		sp := rangeSpecialT(dt, c.A, c.Special)
		if len(c.A) > 0 {
			A = sp
		}
		if len(c.B) > 0 {
			B = rangeSpecialT(dt, c.B, c.Special+1)
		}
	}
	srcA, srcB := bitsAll(A), bitsAll(B)
	sA, sB := snap(A), snap(B)

	want, compat := bcastShape(c.A, c.B)
	if c.Helper == "uni" {
		compat = compat && eqInts(want, c.A)
	}

	var na, nb tensor.Tensor
	var err error
	var pan any
	func() {
		defer func() { pan = recover() }()
		if c.Helper == "uni" {
			na, nb, err = ops.UnidirectionalBroadcast(A, B)
		} else {
			na, nb, err = ops.MultidirectionalBroadcast(A, B)
		}
	}()
	if pan != nil {
		return fmt.Sprintf("panic: %v", pan), "panic"
	}
	if d := sA.diff(snap(A)); d != "" {
		return "first source tensor modified: " + d, "modified"
	}
	if d := sB.diff(snap(B)); d != "" {
		return "second source tensor modified: " + d, "modified"
	}
	if !compat {
		if err == nil {
			return fmt.Sprintf("incompatible shapes accepted, results %v %v", na.Shape(), nb.Shape()), "incompatible"
		}
		return "", "incompatible"
	}
	if err != nil {
		return fmt.Sprintf("compatible shapes refused: %v", err), "compatible"
	}
	if na == nil || nb == nil {
		return "nil result without error", "compatible"
	}
	if !eqInts(na.Shape(), want) || !eqInts(nb.Shape(), want) {
		return fmt.Sprintf("result shapes %v %v, want %v", na.Shape(), nb.Shape(), want), "compatible"
	}
	if na.Dtype() != dt || nb.Dtype() != dt {
		return fmt.Sprintf("result dtypes %v %v, want %v", na.Dtype(), nb.Dtype(), dt), "compatible"
	}
	ga, gb := bitsAll(na), bitsAll(nb)
	n := prod(want)
	if len(ga) != n || len(gb) != n {
		return fmt.Sprintf("result element counts %d %d, want %d", len(ga), len(gb), n), "compatible"
	}
	idx := make([]int, len(want))
	for k := 0; k < n; k++ {
		if ga[k] != srcA[bcastIndex(idx, c.A)] {
			return fmt.Sprintf("first operand: element at %v differs from source element with stretched axes pinned to 0", idx), "compatible"
		}
		if gb[k] != srcB[bcastIndex(idx, c.B)] {
			return fmt.Sprintf("second operand: element at %v differs from source element with stretched axes pinned to 0", idx), "compatible"
		}
		for a := len(idx) - 1; a >= 0; a-- {
			idx[a]++
			if idx[a] < want[a] {
				break
			}
			idx[a] = 0
		}
	}
	// the results must not alias the sources in a way that a write to a result reaches a source:
	// checked by the snapshots above being unchanged is not enough, so verify storage independence
	// only where a copy is required by the statement ("source tensors are never modified" is about
	// the helper itself, so nothing more is asserted here).
	cls := "compatible-same-shape"
	if !eqInts(c.A, c.B) {
		cls = "compatible-stretched"
		if !eqInts(c.A, want) && !eqInts(c.B, want) {
			cls = "compatible-both-stretched"
		}
	}
	return "", cls
}

// writeFailCase stores an enumerated failing case as a replay file and returns its path.
func writeFailCase(property string, c any) string {
	dir := os.Getenv("VERIF_FAIL_DIR")
	if dir == "" {
		dir = os.TempDir()
	}
	b, _ := json.MarshalIndent(c, "", " ")
	p := filepath.Join(dir, fmt.Sprintf("%s-case-%x.json", property, hash64(string(b))))
	_ = os.WriteFile(p, b, 0o644)
	fmt.Printf("VERIF-FAILCASE %s\n", p)
	return p
}

func TestC14(t *testing.T) {
	ev.Begin("C14",
		"enumerated: every ordered pair of shapes of rank 0..4 with extents 1..E (E=4 quick, 5 thorough) for both helpers, float32 contents 1,2,3…; "+
			"generated: rapid pairs (compatible by construction or corrupted) of rank 0..5, extents up to 9, all 14 element types. "+
			"Non-trivial = the two shapes differ (some stretching or an incompatibility); distinct = (helper, shapes, dtype).",
		"oracle: right-aligned equal-or-1 rule, element placement read through At(), deep snapshots of both sources")
	defer reportKnownFindings("C14")

	if p := os.Getenv("VERIF_REPLAY_CASE"); p != "" {
		b, err := os.ReadFile(p)
		if err != nil {
			t.Fatalf("VERIF-INCONCLUSIVE cannot read replay case: %v", err)
		}
		var c c14Case
		if err := json.Unmarshal(b, &c); err != nil {
			t.Fatalf("VERIF-INCONCLUSIVE bad replay case: %v", err)
		}
		v, cls := c14Check(c)
		ev.Case("replay", fmt.Sprint(c), true, cls)
		if v != "" {
			t.Fatalf("C14 violated by %+v: %s", c, v)
		}
		return
	}

	t.Run("enumerated", func(t *testing.T) {
		maxExt := 4
		if tier() == "thorough" {
			maxExt = 5
		}
		shapes := allShapes(4, maxExt)
		nsh, sh := shards(), shard()
		for _, helper := range []string{"multi", "uni"} {
			for i, a := range shapes {
				if i%nsh != sh {
					continue
				}
				for _, b := range shapes {
					c := c14Case{helper, a, b, "float32", 0}
					v, cls := c14Check(c)
					ev.Case("enum-"+helper, fmt.Sprintf("%v x %v", a, b), !eqInts(a, b), cls)
					if v != "" {
						// the case is a pure function of the two shapes: a genuine violation repeats
						again, _ := c14Check(c)
						if again == "" {
							t.Fatalf("VERIF-INCONCLUSIVE C14 %s %v x %v failed once (%s) and passed when repeated", helper, a, b, v)
						}
						writeFailCase("C14", c)
						t.Fatalf("C14 violated by %s %v x %v: %s", helper, a, b, v)
					}
				}
			}
			ev.Exhaustive("enum-"+helper, true)
		}
		ev.Extra("enumerated_shapes", len(shapes))
		ev.Extra("enumerated_max_extent", maxExt)
	})

	check(t, "generated", 20000, 200000, func(rt *rapid.T) {
		helper := rapid.SampledFrom([]string{"multi", "uni"}).Draw(rt, "helper")
		dt := rapid.SampledFrom(ops.AllTypes).Draw(rt, "dtype")
		p := genBroadcastPair(5, 9, 2000).Draw(rt, "pair")
		a, b := p[0], p[1]
		if helper == "uni" && rapid.IntRange(0, 2).Draw(rt, "uniValid") > 0 {
			a = p[2] // make A the full result shape: the valid unidirectional class
		}
		if rapid.IntRange(0, 3).Draw(rt, "corrupt") == 0 {
			a, b, _ = corruptPair(rt, a, b)
		}
		c := c14Case{helper, a, b, dt.String(), rapid.IntRange(0, 40).Draw(rt, "special")}
		v, cls := c14Check(c)
		ev.Case("gen", fmt.Sprintf("%s %s %v x %v", helper, dt, a, b), !eqInts(a, b), cls, "dtype-"+dt.String())
		if v != "" {
			rt.Fatalf("C14 violated by %+v: %s", c, v)
		}
	})
}
