package harness

// C09 — ArgMax, ReduceMax/Min, Softmax, LogSoftmax act on exactly the requested axes.

import (
	"fmt"
	"math"
	"reflect"
	"sort"
	"testing"

	"github.com/advancedclimatesystems/gonnx/onnx"
	"gorgonia.org/tensor"
	"pgregory.net/rapid"
)

type c09Case struct {
	op       string
	node     *onnx.NodeProto
	x        tensor.Tensor
	axes     []int // normalised, sorted, deduplicated axes that are reduced / the softmax axis
	keepdims bool
	feature  string
	noAttrs  bool
}

func (c c09Case) String() string { return fmt.Sprintf("%s %s", descNode(c.node), descT(c.x)) }

// sliceIter calls f for every 1-D slice of x along axis with the flat offsets of its elements.
func slicesAlong(shape []int, axis int, f func(sliceNo int, offs []int)) {
	outer := prod(shape[:axis])
	inner := prod(shape[axis+1:])
	d := shape[axis]
	no := 0
	for o := 0; o < outer; o++ {
		for i := 0; i < inner; i++ {
			offs := make([]int, d)
			for k := 0; k < d; k++ {
				offs[k] = (o*d+k)*inner + i
			}
			f(no, offs)
			no++
		}
	}
}

func c09Gen(rt *rapid.T) c09Case {
	var c c09Case
	c.op = drawOp(rt, []string{"ArgMax", "ReduceMax", "ReduceMin", "Softmax", "LogSoftmax"})
	gate := runOpConstraints(c.op)
	dt := rapid.SampledFrom(gate[0]).Draw(rt, "dtype")
	shape := genShape(1, 4, 5, 1500).Draw(rt, "shape")
	r := len(shape)
	n := prod(shape)
	var attrs []*onnx.AttributeProto
	switch c.op {
	case "ArgMax":
		// data with many ties (small value set), sometimes NaNs for floats
		vals := drawMany(n, func() float64 {
			v := float64(rapid.IntRange(0, 3).Draw(rt, "v"))
			if isFloat(dt) && rapid.IntRange(0, 19).Draw(rt, "nan") == 0 {
				v = math.NaN()
			}
			if !isInt(dt) || !(dt == tensor.Uint32 || dt == tensor.Uint64) {
				if rapid.IntRange(0, 5).Draw(rt, "negate") == 0 {
					v = -v
				}
			}
			return v
		})
		c.x = mkT(shape, backingOf64(dt, vals))
		if (dt == tensor.Int64 || dt == tensor.Uint64) && rapid.IntRange(0, 3).Draw(rt, "bigInts") == 0 {
			// values that differ only below the precision of a float64
			base := rapid.SampledFrom([]int64{1 << 53, 1<<62 + 1<<20, math.MaxInt64 - 8}).Draw(rt, "bigBase")
			s := reflect.MakeSlice(reflect.SliceOf(dt.Type), n, n)
			for i := 0; i < n; i++ {
				v := base + int64(rapid.IntRange(0, 3).Draw(rt, "bigV"))
				if dt == tensor.Int64 {
					s.Index(i).SetInt(v)
				} else {
					s.Index(i).SetUint(uint64(v))
				}
			}
			c.x = mkT(shape, s.Interface())
			c.feature = "ints>2^53"
		}
		axis := 0
		if rapid.IntRange(0, 4).Draw(rt, "axisAbsent") != 0 {
			axis = rapid.IntRange(0, r-1).Draw(rt, "axis")
			sp := int64(axis)
			if rapid.Bool().Draw(rt, "negAxis") {
				sp = int64(axis - r)
				c.feature = "negative-axis"
			}
			attrs = append(attrs, attrI("axis", sp))
		}
		c.axes = []int{axis}
		c.keepdims = true
		switch rapid.IntRange(0, 2).Draw(rt, "keepdims") {
		case 0:
			attrs = append(attrs, attrI("keepdims", 0))
			c.keepdims = false
		case 1:
			attrs = append(attrs, attrI("keepdims", 1))
		}
		if rapid.IntRange(0, 5).Draw(rt, "sli") == 0 {
			attrs = append(attrs, attrI("select_last_index", 0))
		}
	case "ReduceMax", "ReduceMin":
		c.x = genTensor(dt, shape, false).Draw(rt, "x")
		c.keepdims = true
		mode := rapid.IntRange(0, 5).Draw(rt, "axesMode")
		switch mode {
		case 0: // axes absent: all axes
			c.axes = seq(r)
			c.feature = "axes-absent"
		default:
			perm := rapid.Permutation(seq(r)).Draw(rt, "perm")
			k := rapid.IntRange(1, r).Draw(rt, "k")
			sel := perm[:k]
			sp := make([]int64, k)
			for i, a := range sel {
				sp[i] = int64(a)
				if rapid.IntRange(0, 2).Draw(rt, "neg") == 0 {
					sp[i] = int64(a - r)
					c.feature = "negative-axis"
				}
			}
			attrs = append(attrs, attrInts("axes", sp...))
			c.axes = cloneInts(sel)
			sort.Ints(c.axes)
			if k >= 2 {
				c.feature += ">=2-axes"
			}
		}
		switch rapid.IntRange(0, 2).Draw(rt, "keepdims") {
		case 0:
			attrs = append(attrs, attrI("keepdims", 0))
			c.keepdims = false
			if r >= 2 {
				c.feature += "keepdims0"
			}
		case 1:
			attrs = append(attrs, attrI("keepdims", 1))
		}
		c.noAttrs = len(attrs) == 0
	default: // Softmax, LogSoftmax
		// values across the whole finite range; rows that differ wildly from each other
		scaleKind := rapid.IntRange(0, 3).Draw(rt, "scaleKind")
		vals := drawMany(n, func() float64 {
			switch scaleKind {
			case 0:
				return float64(rapid.IntRange(-80, 80).Draw(rt, "v")) / 8
			case 1:
				return float64(rapid.IntRange(-2000, 2000).Draw(rt, "v"))
			}
			v := genFloat(true).Draw(rt, "v")
			if math.IsNaN(v) || math.IsInf(v, 0) {
				v = 0
			}
			return v
		})
		if dt == tensor.Float32 {
			for i, v := range vals {
				if math.Abs(v) > math.MaxFloat32 {
					vals[i] = math.Copysign(math.MaxFloat32, v)
				}
			}
		}
		c.x = mkT(shape, backingOf64(dt, vals))
		axis := r - 1
		if rapid.IntRange(0, 3).Draw(rt, "axisAbsent") != 0 {
			axis = rapid.IntRange(0, r-1).Draw(rt, "axis")
			sp := int64(axis)
			if rapid.Bool().Draw(rt, "negAxis") {
				sp = int64(axis - r)
			}
			attrs = append(attrs, attrI("axis", sp))
		}
		c.axes = []int{axis}
		if axis != r-1 {
			c.feature = "axis-not-last"
		}
		for _, v := range vals {
			if math.Abs(v) > 100 {
				c.feature += "|x|>100"
				break
			}
		}
	}
	c.node = mkNode(c.op, nil, []string{"y"}, attrs...)
	return c
}

// reducedShape: shape after reducing axes with/without keepdims.
func reducedShape(shape, axes []int, keep bool) []int {
	red := map[int]bool{}
	for _, a := range axes {
		red[a] = true
	}
	out := []int{}
	for i, d := range shape {
		switch {
		case !red[i]:
			out = append(out, d)
		case keep:
			out = append(out, 1)
		}
	}
	return out
}

// c09MiddleAxisClass: gorgonia reduces the requested axes one after another (sorted); its kernel
// for an axis that is neither first nor last is only right when the extents between axis 0 and
// that axis multiply to 1. Reports whether some reduction step falls outside that.
func c09MiddleAxisClass(shape, axes []int) bool {
	cur := cloneInts(shape)
	for k, a := range axes {
		a -= k
		if a > 0 && a < len(cur)-1 && prod(cur[1:a]) > 1 {
			return true
		}
		cur = append(cur[:a:a], cur[a+1:]...)
	}
	return false
}

func c09Judge(c c09Case, res opResult) string {
	v := c09JudgeInner(c, res)
	if v != "" && (c.op == "ReduceMax" || c.op == "ReduceMin") && c09MiddleAxisClass(c.x.Shape(), c.axes) && len(c.axes) < len(c.x.Shape()) && kfAccept("KF-C09-reduce-middle-axis") {
		return ""
	}
	return v
}

func c09JudgeInner(c c09Case, res opResult) string {
	if res.panicked {
		return "panic: " + fmt.Sprint(res.panicVal)
	}
	shape := c.x.Shape()
	r := len(shape)
	if res.err != nil {
		switch {
		case c.op == "ArgMax" && r == 1 && !c.keepdims && kfAccept("KF-C09-argmax-rank1-keepdims0"):
			return ""
		case (c.op == "ReduceMax" || c.op == "ReduceMin") && reduceNoAxesForm(c) && (c.keepdims || c.noAttrs) && kfAccept("KF-C09-reduce-no-axes"):
			return ""
		case (c.op == "ReduceMax" || c.op == "ReduceMin") && !isFloat(c.x.Dtype()) && c.x.Dtype() != tensor.Int32 && c.x.Dtype() != tensor.Int64:
			ev.Refused("C09-" + c.op + " " + c.x.Dtype().String() + ": " + refusalReason(res.err)) // element types beyond the common ones: computed or refused
			return ""
		}
		return "valid request refused: " + res.err.Error()
	}
	if len(res.outs) != 1 || res.outs[0] == nil {
		return "expected exactly one non-nil output"
	}
	out := res.outs[0]
	x := f64s(c.x)
	switch c.op {
	case "ArgMax":
		want := reducedShape(shape, c.axes, c.keepdims)
		if !eqInts(out.Shape(), want) {
			return fmt.Sprintf("shape %v, want %v", out.Shape(), want)
		}
		if out.Dtype() != tensor.Int64 {
			return fmt.Sprintf("dtype %v, want int64", out.Dtype())
		}
		g := elems(out)
		v := ""
		xe := elems(c.x)
		greater := func(i, j int) bool { // exact for 64-bit integers
			a, b := xe.Index(i), xe.Index(j)
			switch {
			case a.CanInt():
				return a.Int() > b.Int()
			case a.CanUint():
				return a.Uint() > b.Uint()
			}
			return a.Float() > b.Float()
		}
		slicesAlong(shape, c.axes[0], func(no int, offs []int) {
			if v != "" {
				return
			}
			got := g.Index(no).Int()
			hasNaN := false
			best := 0
			for k, o := range offs {
				if math.IsNaN(x[o]) {
					hasNaN = true
				}
				if greater(o, offs[best]) {
					best = k
				}
			}
			if got < 0 || got >= int64(len(offs)) {
				v = fmt.Sprintf("slice %d: index %d out of range", no, got)
				return
			}
			if hasNaN {
				return // ONNX does not define the ordering of NaN
			}
			if got != int64(best) {
				v = fmt.Sprintf("slice %d: index %d, first maximum is at %d", no, got, best)
			}
		})
		return v
	case "ReduceMax", "ReduceMin":
		want := reducedShape(shape, c.axes, c.keepdims)
		if !eqInts(out.Shape(), want) {
			return fmt.Sprintf("shape %v, want %v", out.Shape(), want)
		}
		if out.Dtype() != c.x.Dtype() {
			return fmt.Sprintf("dtype %v, want %v", out.Dtype(), c.x.Dtype())
		}
		// reference: explicit loop over all elements, accumulating into the kept index (exact: the
		// values are small integers / short decimals representable in float64)
		keptShape := reducedShape(shape, c.axes, true)
		acc := make([]float64, prod(keptShape))
		seen := make([]bool, len(acc))
		for off := range x {
			idx := unravel(off, shape)
			for _, a := range c.axes {
				idx[a] = 0
			}
			k := ravel(idx, keptShape)
			if !seen[k] || (c.op == "ReduceMax" && x[off] > acc[k]) || (c.op == "ReduceMin" && x[off] < acc[k]) {
				acc[k], seen[k] = x[off], true
			}
		}
		g := f64s(out)
		for i := range acc {
			if g[i] != acc[i] {
				return fmt.Sprintf("element %d: %v, want %v", i, g[i], acc[i])
			}
		}
		return ""
	}
	// Softmax / LogSoftmax
	if !eqInts(out.Shape(), shape) {
		return fmt.Sprintf("shape %v, want %v", out.Shape(), shape)
	}
	if out.Dtype() != c.x.Dtype() {
		return fmt.Sprintf("dtype %v, want %v", out.Dtype(), c.x.Dtype())
	}
	g := f64s(out)
	f32 := c.x.Dtype() == tensor.Float32
	axis := c.axes[0]
	v := ""
	slicesAlong(shape, axis, func(no int, offs []int) {
		if v != "" {
			return
		}
		mx := math.Inf(-1)
		for _, o := range offs {
			mx = math.Max(mx, x[o])
		}
		sum := 0.0
		for _, o := range offs {
			sum += math.Exp(x[o] - mx)
		}
		bad := ""
		gsum := 0.0
		for _, o := range offs {
			ref := math.Exp(x[o]-mx) / sum
			if c.op == "LogSoftmax" {
				ref = (x[o] - mx) - math.Log(sum)
			}
			got := g[o]
			gsum += got
			var tol float64
			// the normalising sum of a slice of n elements carries a relative error of up to n*u
			nu := float64(len(offs)) * unitRound(c.x.Dtype())
			switch {
			case c.op == "Softmax" && f32:
				tol = 2e-6 + (3e-5+nu)*ref
			case c.op == "Softmax":
				tol = 1e-14 + (1e-12+nu)*ref
			case f32:
				tol = (1e-5 + nu) * math.Max(1, math.Abs(ref))
			default:
				tol = (1e-12 + nu) * math.Max(1, math.Abs(ref))
			}
			if math.IsNaN(got) || math.IsInf(got, 0) {
				if c.op == "LogSoftmax" && math.IsInf(got, -1) && ((f32 && ref < -3.4e38) || math.IsInf(ref, -1)) {
					continue // the true value is below the range of the element type
				}
				bad = fmt.Sprintf("slice %d: non-finite result %v from finite inputs (reference %v)", no, got, ref)
				break
			}
			if c.op == "Softmax" && got < 0 {
				bad = fmt.Sprintf("slice %d: negative softmax value %v", no, got)
				break
			}
			if c.op == "LogSoftmax" && got > tol {
				bad = fmt.Sprintf("slice %d: positive log-softmax value %v", no, got)
				break
			}
			if math.Abs(got-ref) > tol {
				bad = fmt.Sprintf("slice %d: value %v, reference %v (tolerance %g)", no, got, ref, tol)
				break
			}
		}
		if bad == "" && c.op == "Softmax" {
			lim := 1e-5
			if !f32 {
				lim = 1e-11
			}
			lim += 2 * float64(len(offs)) * unitRound(c.x.Dtype())
			if math.Abs(gsum-1) > lim {
				bad = fmt.Sprintf("slice %d sums to %v", no, gsum)
			}
		}
		if bad == "" {
			return
		}
		// KF-C09-softmax-last-axis-kernel: gorgonia's last-axis kernel seeds every row's maximum
		// with element 0 of the whole tensor and skips the row's own first element.
		if axis == len(shape)-1 && no > 0 && len(offs) >= 1 {
			m2 := x[0]
			for _, o := range offs[1:] {
				m2 = math.Max(m2, x[o])
			}
			if m2 != mx && kfAccept("KF-C09-softmax-last-axis-kernel") {
				return
			}
		}
		v = bad
	})
	return v
}

// reduceNoAxesForm: the request asks for "all axes" by giving none (absent attribute or no
// attributes at all).
func reduceNoAxesForm(c c09Case) bool {
	for _, a := range c.node.Attribute {
		if a.Name == "axes" {
			return false
		}
	}
	return true
}

func TestC09(t *testing.T) {
	ev.Begin("C09",
		"rapid: operator drawn from the 5, dtype from the operator's own gate, shape of rank 1..4 with extents 1..5; ArgMax data from a 4-value set (ties) with NaNs, every axis in either spelling or absent, keepdims absent/0/1; ReduceMax/Min over every subset of axes in any order and spelling or absent, keepdims absent/0/1; Softmax/LogSoftmax over every axis with inputs from /8 decimals, ±2000 integers and the whole finite float range. "+
			"Non-trivial: reductions with >= 2 axes, a negative axis, axes absent or keepdims=0 on rank >= 2; ArgMax with a negative axis; softmax with |x| > 100 somewhere or axis != last. Distinct = (op, attributes, shape, value bits).",
		"softmax tolerances of DESIGN.md 1.6; for ArgMax slices containing NaN only 'index in range' is asserted; reductions of NaN are not generated (ONNX leaves the ordering undefined)")
	defer reportKnownFindings("C09")

	check(t, "ops", 40000, 400000, func(rt *rapid.T) {
		c := c09Gen(rt)
		res := runOp(c.op, c.node, []tensor.Tensor{cloneT(c.x)})
		cls := []string{"op-" + c.op, fmt.Sprintf("rank-%d", len(c.x.Shape())), "dtype-" + c.x.Dtype().String()}
		if c.feature != "" {
			cls = append(cls, c.op+"-"+c.feature)
		}
		ev.Case("C09", c.String(), c.feature != "", cls...)
		if v := c09Judge(c, res); v != "" {
			rt.Fatalf("C09 violated by %v: %s\noutcome: %v", c, v, res)
		}
		if rapid.IntRange(0, 5).Draw(rt, "reuseInstance") == 0 {
			forceOp = c.op
			other := c09Gen(rt)
			forceOp = ""
			ev.Class("C09", "instance-reused")
			if d := reuseDifferential(c.op, c.node, []tensor.Tensor{other.x}, []tensor.Tensor{c.x}); d != "" {
				rt.Fatalf("C09 violated by %v after the same operator instance served %v: %s", c, other, d)
			}
		}
		if rapid.IntRange(0, 4).Draw(rt, "modelLevel") == 0 {
			mres := runSingleNodeModel(c.node, []tensor.Tensor{cloneT(c.x)}, 1)
			ev.Class("C09", "model-level")
			if d := agreeLevels(res, mres); d != "" {
				rt.Fatalf("C09 violated by %v: single-node model disagrees with operator API: %s", c, d)
			}
		}
	})
}

func init() {
	kfRepro["KF-C09-argmax-rank1-keepdims0"] = func() (bool, string) {
		r := runOp("ArgMax", mkNode("ArgMax", nil, nil, attrI("axis", 0), attrI("keepdims", 0)), []tensor.Tensor{mkT([]int{3}, []float32{1, 3, 2})})
		return !r.ok(), "ArgMax([1,3,2], keepdims=0) -> " + r.String()
	}
	kfRepro["KF-C09-reduce-no-axes"] = func() (bool, string) {
		x := rangeT(tensor.Float32, []int{2, 3})
		r1 := runOp("ReduceMax", mkNode("ReduceMax", nil, nil, attrI("keepdims", 1)), []tensor.Tensor{x})
		r2 := runOp("ReduceMax", mkNode("ReduceMax", nil, nil), []tensor.Tensor{cloneT(x)})
		return !r1.ok() || !r2.ok(), fmt.Sprintf("ReduceMax((2,3), keepdims=1, no axes) -> %v; no attributes -> %v", r1, r2)
	}
	kfRepro["KF-C09-reduce-middle-axis"] = func() (bool, string) {
		r := runOp("ReduceMax", mkNode("ReduceMax", nil, nil, attrInts("axes", 2), attrI("keepdims", 0)), []tensor.Tensor{rangeT(tensor.Float32, []int{1, 2, 3, 1})})
		r2 := runOp("ReduceMax", mkNode("ReduceMax", nil, nil, attrInts("axes", 2), attrI("keepdims", 0)), []tensor.Tensor{rangeT(tensor.Float32, []int{2, 2, 1, 5})})
		dev := r2.panicked || !r.ok()
		if r.ok() {
			g := f64s(r.outs[0])
			dev = dev || g[0] != 2 || g[1] != 5
		}
		return dev, fmt.Sprintf("ReduceMax(range (1,2,3,1), axes=[2]) -> %v, want [2 5]; ReduceMax((2,2,1,5), axes=[2]) -> %v", r, r2)
	}
	kfRepro["KF-C09-softmax-last-axis-kernel"] = func() (bool, string) {
		r := runOp("Softmax", mkNode("Softmax", nil, nil), []tensor.Tensor{mkT([]int{2, 3}, []float32{1000, 1001, -1000, 3e38, -3e38, 0})})
		if !r.ok() {
			return true, r.String()
		}
		g := f64s(r.outs[0])
		bad := false
		for _, v := range g {
			if math.IsNaN(v) || math.IsInf(v, 0) {
				bad = true
			}
		}
		return bad, fmt.Sprintf("Softmax([[1000,1001,-1000],[3e38,-3e38,0]]) -> %v", g)
	}
}
