package harness

// C10 — Unary math and activation operators apply the named function per element.

import (
	"fmt"
	"math"
	"testing"

	"gorgonia.org/tensor"
	"pgregory.net/rapid"
)

func sigmoidStable(x float64) float64 {
	if x >= 0 {
		return 1 / (1 + math.Exp(-x))
	}
	e := math.Exp(x)
	return e / (1 + e)
}

var c10Funcs = map[string]func(float64) float64{
	"Sigmoid": sigmoidStable, "Tanh": math.Tanh, "Sin": math.Sin, "Cos": math.Cos, "Tan": math.Tan,
	"Asin": math.Asin, "Acos": math.Acos, "Atan": math.Atan, "Sinh": math.Sinh, "Cosh": math.Cosh,
	"Asinh": math.Asinh, "Acosh": math.Acosh, "Atanh": math.Atanh,
	"Relu": func(x float64) float64 {
		if x < 0 {
			return 0
		}
		return x // NaN stays NaN
	},
	"Abs": math.Abs,
}

var c10Ops = []string{"Abs", "Relu", "PRelu", "Sigmoid", "Tanh", "Sin", "Cos", "Tan", "Asin", "Acos", "Atan", "Sinh", "Cosh", "Asinh", "Acosh", "Atanh", "Not"}

// boundary values per operator, added to the general float mixture
var c10Boundary = map[string][]float64{
	"Asin": {1, -1, 1.0000001, -1.0000001, 0.99999994, 2, -2}, "Acos": {1, -1, 1.0000001, -1.0000001, 2, -2},
	"Atanh": {1, -1, 0.99999994, -0.99999994, 1.0000001, 2, -2}, "Acosh": {1, 0.99999994, 1.0000001, 0, -1},
	"Sinh": {88.7, 89.5, -89.5, 709.7, 710.5, -710.5}, "Cosh": {88.7, 89.5, -89.5, 709.7, 710.5, -710.5},
	"Sigmoid": {-87, -88.8, -104, -745, -746, 17, 37, -1.4e9, -1.6e9, -3e38, 3e38},
	"Tanh":    {9, 10, 19, 20, -9, -20, 1e-5},
	"Sin":     {math.Pi, math.Pi / 2, 1e6, 1e22}, "Cos": {math.Pi, math.Pi / 2, 1e6, 1e22}, "Tan": {math.Pi / 2, 1.5707964, 1e6},
}

// floatTol: allowed absolute deviation from the float64 reference value ref for argument x.
func c10Tol(op string, dt tensor.Dtype, x, ref float64) float64 {
	ulps := 4.0
	if op == "Sigmoid" && dt == tensor.Float32 {
		ulps = 8 + 4*math.Abs(x)
	}
	if dt == tensor.Float32 {
		return ulps*ulp32(ref) + 1e-37
	}
	return ulps*ulp64(ref) + 1e-300
}

func roundTo(dt tensor.Dtype, v float64) float64 {
	if dt == tensor.Float32 {
		return float64(float32(v))
	}
	return v
}

// c10JudgeFloat compares one float element. Returns "" / violation, and a known-finding id that
// would explain it ("" if none).
func c10JudgeFloat(op string, dt tensor.Dtype, x, got, slope float64) (string, string) {
	var ref float64
	if op == "PRelu" {
		ref = x
		if x < 0 {
			ref = roundTo(dt, slope*x)
		} else if !math.IsNaN(x) && (got != x || math.Signbit(got) != math.Signbit(x)) {
			// f(x) = x for x >= 0, whatever the slope is (also an infinite or NaN slope, also for ±0)
			return fmt.Sprintf("PRelu(%v, slope %v) = %v, want the input itself", x, slope, got), ""
		}
	} else {
		ref = roundTo(dt, c10Funcs[op](x))
	}
	if math.IsNaN(ref) {
		if math.IsNaN(got) {
			return "", ""
		}
		return fmt.Sprintf("f(%v) = %v, want NaN", x, got), ""
	}
	if math.IsNaN(got) {
		kf := ""
		if op == "Relu" && math.IsInf(x, -1) {
			kf = "KF-C10-relu-neg-inf"
		}
		return fmt.Sprintf("f(%v) = NaN, want %v", x, ref), kf
	}
	if math.IsInf(ref, 0) || math.IsInf(got, 0) {
		if got == ref {
			return "", ""
		}
		// overflow boundary: the exact value is within rounding distance of the largest finite number
		lim := math.MaxFloat64
		if dt == tensor.Float32 {
			lim = math.MaxFloat32
		}
		exact := math.Abs(c10FuncsOrPRelu(op, x, slope))
		if exact >= lim*(1-1e-6) && math.Signbit(got) == math.Signbit(ref) && math.Abs(got) >= lim*(1-1e-6) {
			return "", ""
		}
		return fmt.Sprintf("f(%v) = %v, want %v", x, got, ref), ""
	}
	if math.Abs(got-ref) <= c10Tol(op, dt, x, ref) {
		return "", ""
	}
	kf := ""
	if op == "Sigmoid" && dt == tensor.Float32 && x <= -1.4e9 && got == 1 {
		kf = "KF-C10-sigmoid-f32-huge-negative"
	}
	return fmt.Sprintf("f(%v) = %v, want %v (|Δ|=%g > tol %g)", x, got, ref, math.Abs(got-ref), c10Tol(op, dt, x, ref)), kf
}

func c10FuncsOrPRelu(op string, x, slope float64) float64 {
	if op == "PRelu" {
		if x < 0 {
			return slope * x
		}
		return x
	}
	return c10Funcs[op](x)
}

type c10Case struct {
	op    string
	dt    tensor.Dtype
	x     tensor.Tensor
	slope tensor.Tensor // PRelu only
	valid bool          // PRelu: slope unidirectionally broadcastable
}

func (c c10Case) String() string {
	if c.op == "PRelu" {
		return fmt.Sprintf("PRelu x=%s slope=%s", descT(c.x), descT(c.slope))
	}
	return fmt.Sprintf("%s %s", c.op, descT(c.x))
}

func c10Gen(rt *rapid.T) c10Case {
	var c c10Case
	c.op = drawOp(rt, c10Ops)
	gate := runOpConstraints(c.op)
	c.dt = rapid.SampledFrom(gate[0]).Draw(rt, "dtype")
	if !isFloat(c.dt) && c.op != "Not" && rapid.IntRange(0, 2).Draw(rt, "preferFloat") > 0 {
		c.dt = rapid.SampledFrom([]tensor.Dtype{tensor.Float32, tensor.Float64}).Draw(rt, "fdtype")
	}
	shape := genShape(0, 4, 5, 1500).Draw(rt, "shape")
	c.x = genTensor(c.dt, shape, true).Draw(rt, "x")
	if b := c10Boundary[c.op]; len(b) > 0 && isFloat(c.dt) && rapid.Bool().Draw(rt, "boundary") {
		// overwrite a few elements with boundary arguments of this function
		vals := f64s(c.x)
		for k := 0; k < 1+len(vals)/3; k++ {
			vals[rapid.IntRange(0, len(vals)-1).Draw(rt, "bi")] = rapid.SampledFrom(b).Draw(rt, "bv")
		}
		c.x = mkT(shape, backingOf64(c.dt, vals))
	}
	c.valid = true
	if c.op == "PRelu" {
		// slope: unidirectionally broadcastable to x (suffix of x's shape with some axes 1) or not
		k := rapid.IntRange(0, len(shape)).Draw(rt, "slopeRank")
		ss := cloneInts(shape[len(shape)-k:])
		for i := range ss {
			if rapid.IntRange(0, 2).Draw(rt, "slopeOne") == 0 {
				ss[i] = 1
			}
		}
		if rapid.IntRange(0, 7).Draw(rt, "slopeBad") == 0 {
			if len(ss) > 0 {
				i := rapid.IntRange(0, len(ss)-1).Draw(rt, "badAxis")
				ss[i] = shape[len(shape)-len(ss)+i] + 1
				c.valid = false
			} else if len(shape) == 0 {
				ss = []int{2}
				c.valid = false
			}
		}
		c.slope = genTensor(c.dt, ss, rapid.Bool().Draw(rt, "slopeSpecial")).Draw(rt, "slope")
	}
	return c
}

func backingOf64(dt tensor.Dtype, vals []float64) any {
	return backingOf(dt, len(vals), func(i int) float64 { return vals[i] })
}

// c10Judge checks a whole outcome.
func c10Judge(c c10Case, res opResult) string {
	if res.panicked {
		return "panic: " + fmt.Sprint(res.panicVal)
	}
	if c.op == "PRelu" && !c.valid {
		if res.err == nil {
			return "slope that is not unidirectionally broadcastable to the input was accepted"
		}
		return ""
	}
	if res.err != nil {
		// the statement has no refusal clause: every accepted element type must be computed
		if c.op == "PRelu" && len(c.x.Shape()) == 0 && kfAccept("KF-C10-prelu-rank0") {
			return ""
		}
		if c.op == "Abs" && (c.dt == tensor.Uint8 || c.dt == tensor.Uint16 || c.dt == tensor.Uint32 || c.dt == tensor.Uint64) && kfAccept("KF-C10-abs-unsigned") {
			return ""
		}
		return "valid input refused: " + res.err.Error()
	}
	if len(res.outs) != 1 || res.outs[0] == nil {
		return "expected exactly one non-nil output"
	}
	out := res.outs[0]
	if !eqInts(out.Shape(), c.x.Shape()) {
		return fmt.Sprintf("shape %v, want %v", out.Shape(), c.x.Shape())
	}
	if out.Dtype() != c.dt {
		return fmt.Sprintf("dtype %v, want %v", out.Dtype(), c.dt)
	}
	n := prod(c.x.Shape())
	if c.op == "Not" {
		x, g := elems(c.x), elems(out)
		for i := 0; i < n; i++ {
			if g.Index(i).Bool() != !x.Index(i).Bool() {
				return fmt.Sprintf("element %d: Not(%v) = %v", i, x.Index(i).Bool(), g.Index(i).Bool())
			}
		}
		return ""
	}
	var slope []float64
	if c.op == "PRelu" {
		slope = f64s(c.slope)
	}
	if isFloat(c.dt) {
		x, g := f64s(c.x), f64s(out)
		for i := 0; i < n; i++ {
			s := 0.0
			if slope != nil {
				s = slope[bcastIndex(unravel(i, c.x.Shape()), c.slope.Shape())]
			}
			v, kf := c10JudgeFloat(c.op, c.dt, x[i], g[i], s)
			if v == "" && c.op == "Abs" && g[i] == 0 && math.Signbit(g[i]) {
				v = fmt.Sprintf("Abs(%v) = -0: the absolute value clears the sign bit", x[i])
			}
			if v == "" {
				continue
			}
			if kf != "" && kfAccept(kf) {
				continue
			}
			return fmt.Sprintf("element %d: %s", i, v)
		}
		return ""
	}
	// integer types: Abs and PRelu, exact wrap-around arithmetic
	x, g := elems(c.x), elems(out)
	var sl = elems(c.x)
	if c.op == "PRelu" {
		sl = elems(c.slope)
	}
	for i := 0; i < n; i++ {
		xv, gv := x.Index(i), g.Index(i)
		if xv.CanUint() {
			if gv.Uint() != xv.Uint() { // x >= 0 always: identity for Abs and PRelu
				return fmt.Sprintf("element %d: f(%d) = %d", i, xv.Uint(), gv.Uint())
			}
			continue
		}
		want := xv.Int()
		if want < 0 {
			if c.op == "Abs" {
				want = -want
			} else {
				want *= sl.Index(bcastIndex(unravel(i, c.x.Shape()), c.slope.Shape())).Int()
			}
			// wrap to the element width
			switch c.dt {
			case tensor.Int8:
				want = int64(int8(want))
			case tensor.Int16:
				want = int64(int16(want))
			case tensor.Int32:
				want = int64(int32(want))
			}
		}
		if gv.Int() != want {
			return fmt.Sprintf("element %d: f(%d) = %d, want %d", i, xv.Int(), gv.Int(), want)
		}
	}
	return ""
}

func TestC10(t *testing.T) {
	ev.Begin("C10",
		"rapid: operator drawn from the 17, dtype from the operator's own gate (biased to float32/float64), shape of rank 0..4, values from the special mixture plus the function's boundary arguments (domain edges, exp-overflow arguments, huge magnitudes); PRelu slopes of every unidirectionally broadcastable shape and non-broadcastable ones. "+
			"Non-trivial = a special/boundary value is present, or rank 0, or the PRelu slope is broadcast; distinct = (op, dtype, shape, value bits).",
		"trusted base: Go's math package evaluated in float64 and rounded to the element type; tolerance 4 ulp + tiny (float32 Sigmoid: (8+4|x|) ulp, see DESIGN.md 1.6); sign of zero not asserted")
	defer reportKnownFindings("C10")

	check(t, "ops", 40000, 400000, func(rt *rapid.T) {
		c := c10Gen(rt)
		var node = mkNode(c.op, nil, []string{"y"})
		ins := []tensor.Tensor{cloneT(c.x)}
		if c.op == "PRelu" {
			ins = append(ins, cloneT(c.slope))
		}
		res := runOp(c.op, node, ins)
		cls := []string{"op-" + c.op, "dtype-" + c.dt.String(), fmt.Sprintf("rank-%d", len(c.x.Shape()))}
		special := hasSpecial(c.x)
		if special {
			cls = append(cls, "special-value")
		}
		slopeBroadcast := c.op == "PRelu" && !eqInts(c.slope.Shape(), c.x.Shape())
		if slopeBroadcast {
			cls = append(cls, "slope-broadcast")
		}
		if !c.valid {
			cls = append(cls, "slope-invalid")
		}
		ev.Case("C10", c.String(), special || len(c.x.Shape()) == 0 || slopeBroadcast, cls...)
		if v := c10Judge(c, res); v != "" {
			rt.Fatalf("C10 violated by %v: %s", c, v)
		}
		// a slope that is a weight of a Model is one tensor object serving inputs of many shapes:
		// after it has served an input with one more (or one fewer) leading axis it must be
		// unchanged and the case must be answered as before
		if c.op == "PRelu" && c.valid && res.ok() && len(c.x.Shape()) >= 1 && rapid.IntRange(0, 2).Draw(rt, "slopeObjectServedAnotherShape") == 0 {
			otherShape := append([]int{rapid.IntRange(1, 3).Draw(rt, "extraLeading")}, c.x.Shape()...)
			if len(c.slope.Shape()) < len(c.x.Shape()) && len(c.x.Shape()) >= 2 && rapid.Bool().Draw(rt, "dropLeading") {
				otherShape = cloneInts(c.x.Shape()[1:])
			}
			if len(otherShape) <= 5 && prod(otherShape) <= 20000 {
				slopeObj := cloneT(c.slope)
				before := snap(slopeObj)
				other := rangeSpecialT(c.dt, otherShape, 3)
				first := runOp("PRelu", node, []tensor.Tensor{other, slopeObj})
				second := runOp("PRelu", node, []tensor.Tensor{cloneT(c.x), slopeObj})
				ev.Class("C10", "prelu-slope-object-served-another-input-shape")
				if first.panicked {
					rt.Fatalf("C10 violated by %v: PRelu of an input of shape %v with the same slope panics: %v", c, otherShape, first.panicVal)
				}
				if d := before.diff(snap(slopeObj)); d != "" {
					rt.Fatalf("C10 violated by %v: the slope tensor was modified: %s", c, d)
				}
				if v := c10Judge(c, second); v != "" {
					rt.Fatalf("C10 violated by %v after the same slope tensor object served an input of shape %v: %s", c, otherShape, v)
				}
			}
		}
		if rapid.IntRange(0, 4).Draw(rt, "modelLevel") == 0 {
			ins2 := []tensor.Tensor{cloneT(c.x)}
			if c.op == "PRelu" {
				ins2 = append(ins2, cloneT(c.slope))
			}
			mres := runSingleNodeModel(node, ins2, 1)
			ev.Class("C10", "model-level")
			if d := agreeLevels(res, mres); d != "" {
				rt.Fatalf("C10 violated by %v: single-node model disagrees with operator API: %s", c, d)
			}
		}
	})
}

func init() {
	kfRepro["KF-C10-relu-neg-inf"] = func() (bool, string) {
		r := runOp("Relu", mkNode("Relu", nil, nil), []tensor.Tensor{mkT([]int{2}, []float32{float32(math.Inf(-1)), 1})})
		if !r.ok() {
			return true, r.String()
		}
		g := f64s(r.outs[0])
		return g[0] != 0, fmt.Sprintf("Relu(-Inf) = %v, want 0", g[0])
	}
	kfRepro["KF-C10-sigmoid-f32-huge-negative"] = func() (bool, string) {
		r := runOp("Sigmoid", mkNode("Sigmoid", nil, nil), []tensor.Tensor{mkT([]int{2}, []float32{-2e9, 0})})
		if !r.ok() {
			return true, r.String()
		}
		g := f64s(r.outs[0])
		return g[0] != 0, fmt.Sprintf("float32 Sigmoid(-2e9) = %v, want 0", g[0])
	}
	kfRepro["KF-C10-prelu-rank0"] = func() (bool, string) {
		r := runOp("PRelu", mkNode("PRelu", nil, nil), []tensor.Tensor{mkT(nil, []float32{-2}), mkT(nil, []float32{0.5})})
		return !r.ok(), "PRelu(scalar -2, slope 0.5): " + r.String()
	}
	kfRepro["KF-C10-abs-unsigned"] = func() (bool, string) {
		r := runOp("Abs", mkNode("Abs", nil, nil), []tensor.Tensor{mkT([]int{2}, []uint32{1, 2})})
		return !r.ok(), "Abs(uint32[1 2]): " + r.String()
	}
}
