package harness

// The repository's sample models (mlp, gru, ndm, scaler): signatures and input generation.

import (
	"os"
	"path/filepath"
	"strings"
	"sync"

	"github.com/advancedclimatesystems/gonnx"
	"gorgonia.org/tensor"
	"pgregory.net/rapid"
)

func repoDir() string {
	if d := os.Getenv("VERIF_REPO"); d != "" {
		return d
	}
	return "/repo"
}

type sampleModel struct {
	name     string
	bytes    []byte
	inNames  []string
	inDims   map[string][]int // fixed size, -1 = batch axis, -2 = sequence axis
	outBatch map[string]int   // batch axis of each output
}

var (
	sampleOnce  sync.Once
	sampleCache map[string]*sampleModel
)

func sampleModels() map[string]*sampleModel {
	sampleOnce.Do(func() {
		sampleCache = map[string]*sampleModel{}
		for _, n := range []string{"mlp", "gru", "scaler", "ndm"} {
			b, err := os.ReadFile(filepath.Join(repoDir(), "sample_models", "onnx_models", n+".onnx"))
			if err != nil {
				continue
			}
			m, err := gonnx.NewModelFromBytes(b)
			if err != nil {
				continue
			}
			sm := &sampleModel{name: n, bytes: b, inNames: m.InputNames(), inDims: map[string][]int{}, outBatch: map[string]int{}}
			classify := func(isDyn bool, name string, size int64) int {
				switch {
				case !isDyn:
					return int(size)
				case strings.HasPrefix(name, "seq"):
					return -2
				}
				return -1
			}
			for k, sh := range m.InputShapes() {
				for _, d := range sh {
					sm.inDims[k] = append(sm.inDims[k], classify(d.IsDynamic, d.Name, d.Size))
				}
			}
			for k, sh := range m.OutputShapes() {
				sm.outBatch[k] = 0
				for i, d := range sh {
					if classify(d.IsDynamic, d.Name, d.Size) == -1 {
						sm.outBatch[k] = i
						break
					}
				}
			}
			sampleCache[n] = sm
		}
	})
	return sampleCache
}

func (sm *sampleModel) batchAxis(input string) int {
	for i, d := range sm.inDims[input] {
		if d == -1 {
			return i
		}
	}
	return -1
}

// feed draws inputs for batch size n and sequence length s.
func (sm *sampleModel) feed(rt *rapid.T, n, s int) gonnx.Tensors {
	out := gonnx.Tensors{}
	for _, name := range sm.inNames {
		shape := make([]int, len(sm.inDims[name]))
		for i, d := range sm.inDims[name] {
			switch d {
			case -1:
				shape[i] = n
			case -2:
				shape[i] = s
			default:
				shape[i] = d
			}
		}
		out[name] = mkT(shape, smallF32s(rt, prod(shape), 2, "sample"))
	}
	return out
}

// selectRows returns t restricted to the given indices along axis (a fresh tensor).
func selectRows(t tensor.Tensor, axis int, rows []int) tensor.Tensor {
	shape := t.Shape()
	lists := make([][]int, len(shape))
	for a := range shape {
		lists[a] = seq(shape[a])
	}
	lists[axis] = rows
	r := refSelect(shape, lists)
	src := elems(t)
	out := make([]float32, len(r.idx))
	switch t.Dtype() {
	case tensor.Float32:
		for i, k := range r.idx {
			out[i] = float32(src.Index(k).Float())
		}
		return mkT(r.shape, out)
	}
	// generic path through float64 (exact for the integer/bool values used in the harness)
	vals := f64s(t)
	sel := make([]float64, len(r.idx))
	for i, k := range r.idx {
		sel[i] = vals[k]
	}
	return toDtype(t.Dtype(), r.shape, sel)
}
