package harness

// C11 — Constant, ConstantOfShape and Cast yield the specified values and element type.

import (
	"fmt"
	"math"
	"math/big"
	"reflect"
	"testing"

	"github.com/advancedclimatesystems/gonnx/onnx"
	"google.golang.org/protobuf/proto"
	"gorgonia.org/tensor"
	"pgregory.net/rapid"
)

var c11Numeric = []tensor.Dtype{
	tensor.Float32, tensor.Float64, tensor.Int8, tensor.Int16, tensor.Int32, tensor.Int64,
	tensor.Uint8, tensor.Uint16, tensor.Uint32, tensor.Uint64,
}

// ---- Cast reference -------------------------------------------------------------------------

// castRef converts one element (given as reflect.Value of the source type) to dt with C-style
// conversion, computed through math/big so that it does not share gonnx's generic conversion.
func castRef(v reflect.Value, dt tensor.Dtype) reflect.Value {
	out := reflect.New(dt.Type).Elem()
	var bf *big.Float
	switch {
	case v.CanFloat():
		f := v.Float()
		if math.IsNaN(f) || math.IsInf(f, 0) {
			if isFloat(dt) {
				out.SetFloat(f)
				return out
			}
			panic("castRef: non-finite to integer is outside the domain")
		}
		bf = new(big.Float).SetPrec(200).SetFloat64(f)
	case v.CanInt():
		bf = new(big.Float).SetPrec(200).SetInt64(v.Int())
	default:
		bf = new(big.Float).SetPrec(200).SetUint64(v.Uint())
	}
	switch {
	case dt == tensor.Float32:
		f, _ := bf.Float32()
		if v.CanFloat() && v.Float() == 0 {
			f = float32(v.Float()) // keep the sign of zero
		}
		out.SetFloat(float64(f))
	case dt == tensor.Float64:
		f, _ := bf.Float64()
		if v.CanFloat() && v.Float() == 0 {
			f = v.Float()
		}
		out.SetFloat(f)
	default:
		bi, _ := bf.Int(nil) // truncates toward zero
		if out.CanInt() {
			out.SetInt(bi.Int64())
		} else {
			out.SetUint(bi.Uint64())
		}
	}
	return out
}

// genCastValue draws a source value of type src that is in range of the target type dst.
func genCastValue(rt *rapid.T, src, dst tensor.Dtype) reflect.Value {
	out := reflect.New(src.Type).Elem()
	// target range as floats/ints
	var lo, hi float64
	switch {
	case dst == tensor.Float32:
		lo, hi = -math.MaxFloat32, math.MaxFloat32
	case dst == tensor.Float64:
		lo, hi = -math.MaxFloat64, math.MaxFloat64
	default:
		l, h, uns := intRangeOf(dst)
		lo, hi = float64(l), float64(h)
		if uns && dst == tensor.Uint64 {
			hi = math.MaxUint64
		}
	}
	if isFloat(src) {
		var f float64
		switch rapid.IntRange(0, 5).Draw(rt, "fk") {
		case 0:
			f = float64(rapid.IntRange(-300, 300).Draw(rt, "q")) / 4 // halves and quarters, negative fractions
		case 1:
			f = float64(rapid.IntRange(-9, 9).Draw(rt, "i")) + 0.999
		case 2:
			f = math.Ldexp(float64(rapid.IntRange(-9, 9).Draw(rt, "m")), rapid.IntRange(0, 62).Draw(rt, "e")) + 0.5
		case 3:
			f = rapid.Float64Range(-1e19, 1e19).Draw(rt, "u")
		case 4:
			f = rapid.SampledFrom([]float64{0, math.Copysign(0, -1), 0.5, -0.5, -0.999, 127.9, -128.9, 255.9, 32767.9, -32768.9, 65535.9, 2147483647.5, -2147483648.5, 4294967295.5, 16777217, 9007199254740993}).Draw(rt, "edge")
		default:
			f = float64(rapid.IntRange(-5, 5).Draw(rt, "small"))
		}
		if src == tensor.Float32 {
			f = float64(float32(f))
		}
		if isFloat(dst) {
			if rapid.IntRange(0, 9).Draw(rt, "nonfinite") == 0 {
				f = rapid.SampledFrom([]float64{math.NaN(), math.Inf(1), math.Inf(-1)}).Draw(rt, "nf")
			}
			if !math.IsNaN(f) && !math.IsInf(f, 0) && (f < lo || f > hi) {
				f = math.Mod(f, 1e6)
			}
		} else {
			// integer target: the truncated value must be representable: lo-1 < f < hi+1
			t := math.Trunc(f)
			if t < lo || t > hi || (dst == tensor.Int64 && t >= 9.2e18) || (dst == tensor.Uint64 && t >= 1.8e19) {
				f = math.Mod(f, 100)
				if lo == 0 && f <= -1 {
					f = -f
				}
			}
		}
		out.SetFloat(f)
		return out
	}
	// integer source
	sl, sh, suns := intRangeOf(src)
	var x int64
	switch rapid.IntRange(0, 4).Draw(rt, "ik") {
	case 0:
		x = rapid.Int64Range(-9, 9).Draw(rt, "small")
	case 1:
		x = rapid.SampledFrom([]int64{sl, sh, sl + 1, sh - 1, 1 << 24, 1<<24 + 1, 1 << 53, 1<<53 + 1, 1<<62 + 1, -(1<<24 + 1), -(1<<53 + 1), 127, 128, 255, 256, 32767, 32768, 65535, 65536,
			// just above a float32 rounding midpoint by less than a float64 ulp: converting through
			// float64 first lands exactly on the midpoint and rounds the other way (double rounding)
			1<<60 + 1<<36 + 1, 1<<61 + 1<<37 + 1, 1<<55 + 1<<31 + 1, -(1<<60 + 1<<36 + 1), 1<<60 + 3<<36 - 1, 1<<58 + 1<<34 + 1}).Draw(rt, "edge")
	default:
		x = rapid.Int64Range(sl, sh).Draw(rt, "any")
	}
	if x < sl {
		x = sl
	}
	if x > sh {
		x = sh
	}
	var ux uint64 = uint64(x)
	if suns {
		if x < 0 {
			x = -x
			ux = uint64(x)
		}
		if src == tensor.Uint64 && rapid.IntRange(0, 4).Draw(rt, "hi") == 0 {
			ux |= 1 << 63
		}
	}
	// clamp into the target's range when the target is an integer type
	if !isFloat(dst) {
		dl, dh, duns := intRangeOf(dst)
		if suns {
			limit := uint64(dh)
			if duns && dst == tensor.Uint64 {
				limit = math.MaxUint64
			}
			if ux > limit {
				ux %= limit + 1
				if limit == math.MaxUint64 {
					ux = uint64(x)
				}
			}
		} else {
			if duns && x < 0 {
				x = -(x + 1)
			}
			if dst != tensor.Uint64 && x > dh {
				x %= dh
			}
			if !duns && x < dl {
				x = -((-(x + 1)) % dh)
			}
			ux = uint64(x)
		}
	}
	if suns {
		out.SetUint(ux)
	} else {
		out.SetInt(x)
	}
	return out
}

// ---- case -----------------------------------------------------------------------------------

type c11Case struct {
	op         string
	node       *onnx.NodeProto
	ins        []tensor.Tensor
	want       tensor.Tensor // expected result (valid cases)
	valid      bool
	mayRef     bool // computed-or-refused class
	feature    string
	rank0Value bool
}

func (c c11Case) String() string {
	s := descNode(c.node)
	for _, t := range c.ins {
		s += " " + descT(t)
	}
	return fmt.Sprintf("%s [%s] valid=%v", s, c.feature, c.valid)
}

func c11Gen(rt *rapid.T) c11Case {
	var c c11Case
	c.op = drawOp(rt, []string{"Constant", "ConstantOfShape", "Cast", "Cast"})
	c.valid = true
	switch c.op {
	case "Constant":
		form := rapid.SampledFrom([]string{"value", "value", "value_float", "value_floats", "value_int", "value_ints", "value_string", "sparse_value", "value_strings", "bogus", "none", "two"}).Draw(rt, "form")
		c.feature = form
		switch form {
		case "value":
			dt := rapid.SampledFrom(c12Dtypes).Draw(rt, "dtype")
			shape := genShape(0, 3, 4, 1500).Draw(rt, "shape")
			backing := genBits(dt, prod(shape)).Draw(rt, "values")
			typed := rapid.Bool().Draw(rt, "typed")
			if dt == tensor.Uint64 && !typed && !kfOpen("KF-C12-raw-uint64") {
				// nothing to avoid once repaired
			}
			c.node = mkNode("Constant", nil, []string{"y"}, attrT("value", encodeTensor("c", shape, backing, typed)))
			// node names are optional and often generated ("Constant_0"): the same name recurs in
			// unrelated models of one process
			c.node.Name = rapid.SampledFrom([]string{"", "", "Constant_0", "Constant_1", "c"}).Draw(rt, "nodeName")
			c.want = mkT(shape, backing)
			c.feature = fmt.Sprintf("value-%v-typed=%v", dt, typed)
		case "value_float":
			f := float32(genFloat(true).Draw(rt, "f"))
			c.node = mkNode("Constant", nil, []string{"y"}, attrF("value_float", f))
			c.want = mkT(nil, []float32{f})
		case "value_floats":
			n := rapid.IntRange(1, 6).Draw(rt, "n")
			fs := make([]float32, n)
			for i := range fs {
				fs[i] = float32(genFloat(true).Draw(rt, "f"))
			}
			c.node = mkNode("Constant", nil, []string{"y"}, attrFs("value_floats", fs...))
			c.want = mkT([]int{n}, fs)
		case "value_int":
			v := rapid.Int64().Draw(rt, "i")
			c.node = mkNode("Constant", nil, []string{"y"}, attrI("value_int", v))
			c.want = mkT(nil, []int64{v})
		case "value_ints":
			n := rapid.IntRange(1, 6).Draw(rt, "n")
			vs := make([]int64, n)
			for i := range vs {
				vs[i] = rapid.Int64().Draw(rt, "i")
			}
			c.node = mkNode("Constant", nil, []string{"y"}, attrInts("value_ints", vs...))
			c.want = mkT([]int{n}, vs)
		case "value_string":
			c.node = mkNode("Constant", nil, []string{"y"}, attrS("value_string", "x"))
			c.valid = false
		case "value_strings":
			c.node = mkNode("Constant", nil, []string{"y"}, attrStrs("value_strings", "x", "y"))
			c.valid = false
		case "sparse_value":
			c.node = mkNode("Constant", nil, []string{"y"}, &onnx.AttributeProto{Name: "sparse_value", Type: onnx.AttributeProto_SPARSE_TENSOR, SparseTensor: &onnx.SparseTensorProto{}})
			c.valid = false
		case "bogus":
			c.node = mkNode("Constant", nil, []string{"y"}, attrI("valu", 1))
			c.valid = false
		case "none":
			c.node = mkNode("Constant", nil, []string{"y"})
			c.valid = false
		case "two":
			c.node = mkNode("Constant", nil, []string{"y"}, attrI("value_int", 1), attrF("value_float", 2))
			c.valid = false
		}
	case "ConstantOfShape":
		shape := genShape(1, 4, 5, 1500).Draw(rt, "shape")
		s64 := make([]int64, len(shape))
		for i, d := range shape {
			s64[i] = int64(d)
		}
		var attrs []*onnx.AttributeProto
		dt := tensor.Float32
		var backing any = []float32{0}
		c.feature = "default-value"
		if rapid.IntRange(0, 4).Draw(rt, "valueAbsent") != 0 {
			dt = rapid.SampledFrom(c12Dtypes).Draw(rt, "dtype")
			backing = genBits(dt, 1).Draw(rt, "value")
			typed := rapid.Bool().Draw(rt, "typed")
			vshape := []int{1}
			c.feature = fmt.Sprintf("value-%v", dt)
			if rapid.IntRange(0, 3).Draw(rt, "rank0Value") == 0 {
				vshape = []int{}
				c.feature += "-rank0"
				c.rank0Value = true
			}
			tp := encodeTensor("v", vshape, backing, typed)
			if rapid.IntRange(0, 9).Draw(rt, "twoElems") == 0 {
				two := reflect.AppendSlice(reflect.ValueOf(backing), reflect.ValueOf(backing))
				tp = encodeTensor("v", []int{2}, two.Interface(), typed)
				c.valid, c.feature = false, "invalid-two-element-value"
			}
			attrs = append(attrs, attrT("value", tp))
			switch dt {
			case tensor.Float32, tensor.Float64, tensor.Int32, tensor.Int64:
			default:
				c.mayRef = true
			}
		}
		if c.valid {
			switch rapid.IntRange(0, 9).Draw(rt, "badShape") {
			case 0:
				s64[rapid.IntRange(0, len(s64)-1).Draw(rt, "at")] = 0
				c.valid, c.feature = false, "refused-zero-extent"
			case 1:
				s64[rapid.IntRange(0, len(s64)-1).Draw(rt, "at")] = -int64(rapid.IntRange(1, 3).Draw(rt, "neg"))
				c.valid, c.feature = false, "invalid-negative-extent"
			case 2:
				// several negative extents (their product may be positive), possibly next to a zero
				for k := rapid.IntRange(2, 3).Draw(rt, "nNeg"); k > 0; k-- {
					s64[rapid.IntRange(0, len(s64)-1).Draw(rt, "at")] *= -1
				}
				if rapid.IntRange(0, 3).Draw(rt, "withZero") == 0 {
					s64[rapid.IntRange(0, len(s64)-1).Draw(rt, "zeroAt")] = 0
				}
				bad := false
				for _, e := range s64 {
					if e <= 0 {
						bad = true
					}
				}
				if bad {
					c.valid, c.feature = false, "invalid-negative-extent"
				}
			}
		}
		c.node = mkNode("ConstantOfShape", nil, []string{"y"}, attrs...)
		c.ins = []tensor.Tensor{mkT([]int{len(s64)}, s64)}
		if c.valid {
			n := prod(shape)
			fill := reflect.MakeSlice(reflect.TypeOf(backing), n, n)
			for i := 0; i < n; i++ {
				fill.Index(i).Set(reflect.ValueOf(backing).Index(0))
			}
			c.want = mkT(shape, fill.Interface())
		}
	case "Cast":
		src := rapid.SampledFrom(c11Numeric).Draw(rt, "src")
		dst := rapid.SampledFrom(c11Numeric).Draw(rt, "dst")
		shape := genShape(0, 3, 4, 400).Draw(rt, "shape")
		n := prod(shape)
		in := reflect.MakeSlice(reflect.SliceOf(src.Type), n, n)
		out := reflect.MakeSlice(reflect.SliceOf(dst.Type), n, n)
		interesting := false
		for i := 0; i < n; i++ {
			v := genCastValue(rt, src, dst)
			in.Index(i).Set(v)
			out.Index(i).Set(castRef(v, dst))
			f := numOf(v)
			if f < 0 || f > 100 || f != math.Trunc(f) {
				interesting = true
			}
		}
		c.ins = []tensor.Tensor{mkT(shape, in.Interface())}
		c.want = mkT(shape, out.Interface())
		to := int64(onnxTypeOf[dst])
		c.feature = fmt.Sprintf("%v->%v", src, dst)
		if src != dst && interesting {
			c.feature += "*"
		}
		if rapid.IntRange(0, 11).Draw(rt, "badTarget") == 0 {
			to = int64(rapid.SampledFrom([]int32{0, 8, 9, 10, 14, 15, 16, 17, 42, -3}).Draw(rt, "to"))
			c.valid, c.feature = false, fmt.Sprintf("unsupported-target-%d", to)
		}
		c.node = mkNode("Cast", nil, []string{"y"}, attrI("to", to))
		// source types outside the operator's own gate may be refused
		gateOK := false
		for _, d := range runOpConstraints("Cast")[0] {
			if d == src {
				gateOK = true
			}
		}
		c.mayRef = !gateOK
	}
	return c
}

func c11Judge(c c11Case, res opResult) string {
	if res.panicked {
		if c.op == "Cast" && len(c.ins[0].Shape()) == 0 && kfAccept("KF-C11-cast-rank0-unsigned-panic") {
			switch c.ins[0].Dtype() {
			case tensor.Uint8, tensor.Uint16, tensor.Uint32, tensor.Uint64:
				return ""
			}
		}
		if c.op == "ConstantOfShape" && c.rank0Value && kfAccept("KF-C11-constantofshape-rank0-value-panic") {
			return ""
		}
		return "panic: " + fmt.Sprint(res.panicVal)
	}
	if !c.valid {
		if res.err == nil {
			return "unsupported / invalid request answered with a tensor: " + res.String()
		}
		return ""
	}
	if res.err != nil {
		if c.mayRef {
			ev.Refused("C11-" + c.op + ": " + refusalReason(res.err))
			return ""
		}
		return "valid request refused: " + res.err.Error()
	}
	if len(res.outs) != 1 || res.outs[0] == nil {
		return "expected exactly one non-nil output"
	}
	if d := sameBits(res.outs[0], c.want); d != "" {
		// -0 vs +0 and NaN payloads only matter for Constant (a copy); Cast and fill are value-level
		if c.op != "Constant" {
			if d2 := sameValues(res.outs[0], c.want); d2 == "" {
				return ""
			}
		}
		if c.op == "Constant" && c.want.Dtype() == tensor.Uint64 && kfOpen("KF-C12-raw-uint64") && len(c.feature) > 11 && c.feature[len(c.feature)-11:] == "typed=false" && kfAccept("KF-C12-raw-uint64") {
			return ""
		}
		return "result differs: " + d + " (want " + descT(c.want) + ")"
	}
	return ""
}

func TestC11(t *testing.T) {
	ev.Begin("C11",
		"rapid: Constant with every attribute form (value with all 11 element types in both encodings and rank 0..3, value_float(s), value_int(s), the unsupported forms, zero and two attributes); ConstantOfShape with value tensors of all 11 types with dims [1] or [], absent, or two elements, shapes of rank 1..4 with extents 1..5 plus zero/negative extents; Cast over all 10x10 numeric (source,target) pairs with values drawn in range of the target (fractions, negative fractions, halves, > 2^24 / 2^53 integers, type extremes), rank 0..3, plus unsupported targets. "+
			"Non-trivial: Cast with source != target and a value that is not a small non-negative integer; ConstantOfShape with a non-default value; Constant in the value form; any unsupported/invalid request. Distinct = (op, attributes, inputs).",
		"Cast reference computed through math/big (truncation toward zero, nearest-even to floats), not through Go's generic conversion; source types outside the operator's own gate (int8/uint8) may be refused")
	defer reportKnownFindings("C11")

	check(t, "ops", 40000, 400000, func(rt *rapid.T) {
		c := c11Gen(rt)
		res := runOp(c.op, c.node, cloneTs(c.ins))
		nontrivial := !c.valid
		switch c.op {
		case "Cast":
			nontrivial = nontrivial || (len(c.feature) > 0 && c.feature[len(c.feature)-1] == '*')
		case "ConstantOfShape":
			nontrivial = nontrivial || c.feature != "default-value"
		default:
			nontrivial = nontrivial || (len(c.feature) > 5 && c.feature[:6] == "value-")
		}
		cls := []string{"op-" + c.op}
		if c.op == "Cast" && c.valid {
			cls = append(cls, "Cast-src-"+c.ins[0].Dtype().String(), "Cast-dst-"+c.want.Dtype().String(), fmt.Sprintf("Cast-rank-%d", len(c.ins[0].Shape())))
		} else {
			cls = append(cls, c.op+"-"+c.feature)
		}
		ev.Case("C11", c.String(), nontrivial, cls...)
		if v := c11Judge(c, res); v != "" {
			rt.Fatalf("C11 violated by %v: %s", c, v)
		}
		// the result depends only on this call's inputs: a second request through the very same
		// operator instance (same attributes, another shape / other values) must be answered like
		// a first one
		if c.valid && (c.op == "ConstantOfShape" || c.op == "Cast") && rapid.IntRange(0, 2).Draw(rt, "reuseInstance") == 0 {
			var second c11Case
			forceOp = c.op
			for tries := 0; tries < 20; tries++ {
				second = c11Gen(rt)
				if second.valid && proto.Equal(second.node, c.node) {
					break
				}
				second = c11Case{}
			}
			forceOp = ""
			if second.node == nil && c.op == "ConstantOfShape" {
				// same value attribute, the requested shape permuted (same rank and element count)
				sh := f64s(c.ins[0])
				rev := make([]int64, len(sh))
				dims := make([]int, len(sh))
				for i := range sh {
					rev[i] = int64(sh[len(sh)-1-i])
					dims[i] = int(rev[i])
				}
				w := cloneT(c.want)
				if err := w.Reshape(dims...); err == nil {
					second = c11Case{op: c.op, node: c.node, ins: []tensor.Tensor{mkT([]int{len(rev)}, rev)}, want: w, valid: true, mayRef: c.mayRef}
				}
			}
			if second.node != nil {
				op, err := getOperator(c.op)
				if err == nil && op.Init(c.node) == nil {
					apply := func(ins []tensor.Tensor) opResult {
						var r opResult
						func() {
							defer func() {
								if p := recover(); p != nil {
									r.panicked, r.panicVal = true, p
								}
							}()
							v, err := op.ValidateInputs(ins)
							if err == nil {
								v, err = op.Apply(v)
							}
							r.outs, r.err = v, err
						}()
						return r
					}
					first := apply(cloneTs(c.ins))
					again := apply(cloneTs(second.ins))
					ev.Class("C11", c.op+"-instance-reused")
					if v := c11Judge(c, first); v != "" {
						rt.Fatalf("C11 violated by %v: %s", c, v)
					}
					if v := c11Judge(second, again); v != "" {
						rt.Fatalf("C11 violated by %v requested through the operator instance that had just answered %v: %s", second, c, v)
					}
				}
			}
		}
		if rapid.IntRange(0, 4).Draw(rt, "modelLevel") == 0 {
			mres := runSingleNodeModel(c.node, cloneTs(c.ins), 1)
			ev.Class("C11", "model-level")
			if d := agreeLevels(res, mres); d != "" {
				rt.Fatalf("C11 violated by %v: single-node model disagrees with operator API: %s", c, d)
			}
		}
	})
}

func init() {
	kfRepro["KF-C11-cast-rank0-unsigned-panic"] = func() (bool, string) {
		r := runOp("Cast", mkNode("Cast", nil, nil, attrI("to", 1)), []tensor.Tensor{mkT(nil, []uint32{7})})
		return !r.ok(), "Cast(rank-0 uint32 7 -> float32) -> " + r.String()
	}
	kfRepro["KF-C11-constantofshape-rank0-value-panic"] = func() (bool, string) {
		r := runOp("ConstantOfShape", mkNode("ConstantOfShape", nil, nil, attrT("value", encodeTensor("v", []int{}, []float32{3}, false))), []tensor.Tensor{int64T(2, 2)})
		return !r.ok(), "ConstantOfShape(value = rank-0 float32 3, shape [2,2]) -> " + r.String()
	}
}
