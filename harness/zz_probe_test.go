package harness

import (
	"fmt"
	"testing"

	"gorgonia.org/tensor"
)

func TestProbe(t *testing.T) {
	for _, op := range []string{"ReduceMax", "ReduceMin"} {
		bad := map[string][]string{}
		tot := map[string]int{}
		for _, sh := range allShapes(5, 3) {
			r := len(sh)
			if r < 3 {
				continue
			}
			for a := 0; a < r; a++ {
				c := c09Case{op: op, node: mkNode(op, nil, nil, attrInts("axes", int64(a)), attrI("keepdims", 0)), x: rangeT(tensor.Float32, sh), axes: []int{a}, keepdims: false}
				res := runOp(op, c.node, []tensor.Tensor{cloneT(c.x)})
				v := c09Judge(c, res)
				k := fmt.Sprintf("rank%d axis%d", r, a)
				tot[k]++
				if v != "" {
					kind := "wrong"
					if res.panicked {
						kind = "panic"
					}
					bad[k+" "+kind] = append(bad[k+" "+kind], fmt.Sprint(sh))
				}
			}
		}
		for k, v := range bad {
			n := len(v)
			if n > 12 {
				v = v[:12]
			}
			fmt.Println(op, k, n, "of", tot[k[:11]], v)
		}
	}
}
