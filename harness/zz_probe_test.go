package harness

import (
	"fmt"
	"testing"

	"github.com/advancedclimatesystems/gonnx/onnx"
)

func TestProbe(t *testing.T) {
	for _, tp := range []*onnx.TensorProto{
		{DataType: 1, Dims: []int64{0}},
		{DataType: 1, Dims: []int64{2, 0}},
		{DataType: 7, Dims: []int64{0}, RawData: []byte{}},
		{DataType: 1, Dims: []int64{}},
		{DataType: 1, Dims: []int64{}, FloatData: []float32{1, 2}},
		{DataType: 1, Dims: []int64{1}, FloatData: []float32{1}},
	} {
		r := decodeProto(tp)
		fmt.Println(tp.DataType, tp.Dims, "->", r)
		if r.t != nil {
			fmt.Println("   shape", r.t.Shape(), "size", r.t.Size(), "scalar", r.t.IsScalar())
		}
	}
}
