package harness

import (
	"fmt"
	"math"
	"testing"

	"gorgonia.org/tensor"
)

func TestProbe(t *testing.T) {
	nan := float32(math.NaN())
	_ = nan
	for _, c := range [][2]tensor.Tensor{
		{mkT(nil, []float32{0}), mkT(nil, []float32{0})},
		{mkT([]int{1}, []float32{0}), mkT([]int{1}, []float32{0})},
		{mkT([]int{2}, []float32{0, 1}), mkT([]int{2}, []float32{0, 0})},
		{mkT([]int{2}, []float32{0, 1}), mkT(nil, []float32{0})},
		{mkT(nil, []float32{0}), mkT([]int{2}, []float32{0, 0})},
		{mkT([]int{2}, []float64{0, 1}), mkT([]int{2}, []float64{0, 0})},
		{mkT(nil, []float64{0}), mkT(nil, []float64{0})},
		{mkT(nil, []float32{-1}), mkT(nil, []float32{0})},
	} {
		r := runOp("Div", mkNode("Div", nil, nil), []tensor.Tensor{c[0], c[1]})
		fmt.Println(descT(c[0]), descT(c[1]), "->", r)
	}
}
