package harness

// Shared rapid generators. Every random choice in the harness goes through rapid draws.

import (
	"flag"
	"fmt"
	"math"
	"reflect"
	"testing"

	"gorgonia.org/tensor"
	"pgregory.net/rapid"
)

// setChecks sets rapid's case count for the next rapid.Check call.
func setChecks(n int) {
	if err := flag.Set("rapid.checks", fmt.Sprint(n)); err != nil {
		panic(err)
	}
}

// check runs a rapid property with its own budget as a subtest.
func check(t *testing.T, name string, q, th int, prop func(*rapid.T)) {
	t.Run(name, func(t *testing.T) {
		setChecks(budget(q, th))
		rapid.Check(t, prop)
	})
}

// bigExtents: sizes around the block / vector-width boundaries of the kernels underneath (gonum
// blocks at 64, SIMD widths 4/8/16, bytes.Reader chunks), drawn occasionally so that code paths that
// only exist for larger tensors are reached; the callers' element caps keep the cases cheap.
var bigExtents = []int{9, 15, 16, 17, 31, 32, 33, 63, 64, 65, 100, 127, 128, 129, 257}

// genExtent over-represents 1 (gorgonia's extent-1 slicing rule), then 2 and 3; for max >= 4 one
// draw in 16 is a big extent (see bigExtents).
func genExtent(max int) *rapid.Generator[int] {
	return rapid.Custom(func(t *rapid.T) int {
		if max >= 4 && rapid.IntRange(0, 15).Draw(t, "big") == 0 {
			return rapid.SampledFrom(bigExtents).Draw(t, "bigExt")
		}
		switch rapid.IntRange(0, 9).Draw(t, "extk") {
		case 0, 1, 2:
			return 1
		case 3, 4:
			return min(2, max)
		case 5, 6:
			return min(3, max)
		}
		return rapid.IntRange(1, max).Draw(t, "ext")
	})
}

// hugeShape: a shape of rank r (>= 1) with 4 100 .. 20 000 elements, for the thresholds at which
// implementations typically switch to blocked or parallel code (1 024, 4 096, 16 384 elements).
func hugeShape(t *rapid.T, r int) []int {
	s := make([]int, r)
	for i := range s {
		s[i] = 1
	}
	a := rapid.IntRange(0, r-1).Draw(t, "hugeAxis")
	if r == 1 {
		s[0] = rapid.SampledFrom([]int{4100, 5000, 8193, 16385, 17000}).Draw(t, "hugeLen")
		return s
	}
	b := (a + 1 + rapid.IntRange(0, r-2).Draw(t, "hugeAxis2")) % r
	s[a] = rapid.SampledFrom([]int{64, 65, 100, 127, 129}).Draw(t, "hugeA")
	s[b] = rapid.SampledFrom([]int{65, 70, 100, 129, 150}).Draw(t, "hugeB")
	return s
}

// giantShape: more than 65 536 elements (the next common threshold for parallel / blocked paths).
func giantShape(t *rapid.T, r int) []int {
	s := make([]int, r)
	for i := range s {
		s[i] = 1
	}
	if r == 1 {
		s[0] = rapid.SampledFrom([]int{65537, 66049, 70001}).Draw(t, "giantLen")
		return s
	}
	a := rapid.IntRange(0, r-1).Draw(t, "giantAxis")
	b := (a + 1 + rapid.IntRange(0, r-2).Draw(t, "giantAxis2")) % r
	s[a] = rapid.SampledFrom([]int{257, 263, 300}).Draw(t, "giantA")
	s[b] = rapid.SampledFrom([]int{257, 259, 301}).Draw(t, "giantB")
	return s
}

// genShape: rank in [minRank,maxRank], extents 1..maxExt (occasionally a big extent), at most
// maxElems elements; callers that allow >= 1500 elements get a huge shape once in 600 draws.
func genShape(minRank, maxRank, maxExt, maxElems int) *rapid.Generator[[]int] {
	return rapid.Custom(func(t *rapid.T) []int {
		r := rapid.IntRange(minRank, maxRank).Draw(t, "rank")
		if maxElems >= 1500 && r >= 1 && rapid.IntRange(0, 599).Draw(t, "huge") == 0 {
			if rapid.IntRange(0, 5).Draw(t, "giant") == 0 {
				return giantShape(t, r)
			}
			return hugeShape(t, r)
		}
		s := make([]int, r)
		n := 1
		for i := range s {
			e := genExtent(maxExt).Draw(t, "e")
			if n*e > maxElems {
				e = 1
			}
			s[i] = e
			n *= e
		}
		return s
	})
}

// genBroadcastPair constructs (a, b, result) with a and b broadcast-compatible: per axis draw the
// extent and which operand (none, a, b, both) holds a 1 there, then drop leading axes of either
// operand. Both-sided stretching, scalars and rank differences arise by construction.
func genBroadcastPair(maxRank, maxExt, maxElems int) *rapid.Generator[[3][]int] {
	return rapid.Custom(func(t *rapid.T) [3][]int {
		r := rapid.SampledFrom([]int{0, 1, 1, 2, 2, 2, 3, 3, 3, 4, 4, 5}).Draw(t, "rrank")
		if r > maxRank {
			r = maxRank
		}
		var huge []int
		if maxElems >= 1500 && r >= 1 && rapid.IntRange(0, 599).Draw(t, "huge") == 0 {
			huge = hugeShape(t, r)
		}
		a, b := make([]int, r), make([]int, r)
		n := 1
		for i := 0; i < r; i++ {
			e := genExtent(maxExt).Draw(t, "e")
			if n*e > maxElems {
				e = 1
			}
			if huge != nil {
				e = huge[i]
			}
			n *= e
			a[i], b[i] = e, e
			switch rapid.IntRange(0, 6).Draw(t, "mode") {
			case 3, 4:
				a[i] = 1
			case 5, 6:
				b[i] = 1
			}
		}
		drop := func(s []int, label string) []int {
			k := rapid.SampledFrom([]int{0, 0, 0, 0, 1, 1, 2, 9}).Draw(t, label)
			if k > len(s) {
				k = len(s)
			}
			return s[k:]
		}
		if rapid.Bool().Draw(t, "dropWhich") {
			a = drop(a, "dropA")
		} else {
			b = drop(b, "dropB")
		}
		out, ok := bcastShape(a, b)
		if !ok {
			panic("genBroadcastPair: constructed incompatible pair")
		}
		return [3][]int{a, b, out}
	})
}

// corruptShape makes b incompatible with a by setting one axis pair to different extents != 1.
func corruptPair(t *rapid.T, a, b []int) ([]int, []int, bool) {
	if len(a) == 0 || len(b) == 0 {
		return a, b, false
	}
	a, b = cloneInts(a), cloneInts(b)
	k := rapid.IntRange(1, min(len(a), len(b))).Draw(t, "corruptAxis")
	a[len(a)-k] = rapid.IntRange(2, 4).Draw(t, "ca")
	b[len(b)-k] = a[len(a)-k] + rapid.IntRange(1, 2).Draw(t, "cb")
	return a, b, true
}

var floatSpecials64 = []float64{
	0, math.Copysign(0, -1), 1, -1, 0.5, -0.5, 2, -2, math.Inf(1), math.Inf(-1), math.NaN(),
	math.MaxFloat32, -math.MaxFloat32, math.SmallestNonzeroFloat32, -math.SmallestNonzeroFloat32,
	1e-40, -1e-40, 88.7, -88.7, 89, -89, 709.7, -709.7, 710, -710, 1e9, -1e9, 2e9, -2e9, 1e30, -1e30,
	16777216, 16777217, -16777217, 3.4e38, -3.4e38,
}

// genFloat: the float mixture of DESIGN.md section 2. special=false restricts to finite "ordinary"
// values.
func genFloat(special bool) *rapid.Generator[float64] {
	return rapid.Custom(func(t *rapid.T) float64 {
		k := rapid.IntRange(0, 9).Draw(t, "fk")
		if !special && k >= 6 {
			k -= 6
		}
		switch k {
		case 0, 1:
			return float64(rapid.IntRange(-6, 6).Draw(t, "fi"))
		case 2, 3:
			return float64(rapid.IntRange(-4000, 4000).Draw(t, "fu")) / 1000
		case 4:
			return math.Ldexp(1, rapid.IntRange(-30, 30).Draw(t, "fe")) * float64(1-2*rapid.IntRange(0, 1).Draw(t, "fs"))
		case 5:
			return float64(rapid.IntRange(-1000, 1000).Draw(t, "fq")) / 8
		case 6, 7:
			return rapid.SampledFrom(floatSpecials64).Draw(t, "fspecial")
		case 8:
			m := math.Pow(10, float64(rapid.IntRange(3, 38).Draw(t, "fmag")))
			return m * (float64(rapid.IntRange(1000, 9999).Draw(t, "fmant")) / 1000) * float64(1-2*rapid.IntRange(0, 1).Draw(t, "fs2"))
		default:
			return rapid.Float64().Draw(t, "fany")
		}
	})
}

// intRangeOf returns the representable range of an integer dtype.
func intRangeOf(dt tensor.Dtype) (lo, hi int64, unsigned bool) {
	switch dt {
	case tensor.Int8:
		return math.MinInt8, math.MaxInt8, false
	case tensor.Int16:
		return math.MinInt16, math.MaxInt16, false
	case tensor.Int32:
		return math.MinInt32, math.MaxInt32, false
	case tensor.Int64, tensor.Int:
		return math.MinInt64, math.MaxInt64, false
	case tensor.Uint8:
		return 0, math.MaxUint8, true
	case tensor.Uint16:
		return 0, math.MaxUint16, true
	case tensor.Uint32:
		return 0, math.MaxUint32, true
	case tensor.Uint64:
		return 0, math.MaxInt64, true // upper half drawn separately
	}
	panic("intRangeOf: " + dt.String())
}

func isFloat(dt tensor.Dtype) bool { return dt == tensor.Float32 || dt == tensor.Float64 }
func isInt(dt tensor.Dtype) bool {
	switch dt {
	case tensor.Int8, tensor.Int16, tensor.Int32, tensor.Int64, tensor.Uint8, tensor.Uint16, tensor.Uint32, tensor.Uint64, tensor.Int:
		return true
	}
	return false
}

// genBacking draws a backing slice of n elements of dt. For floats the special mixture is used
// when special is set; for integers extremes are included when special is set.
func genBacking(dt tensor.Dtype, n int, special bool) *rapid.Generator[any] {
	return rapid.Custom(func(t *rapid.T) any {
		if n > 2048 {
			// huge tensors: 257 drawn values laid out by a fixed index scramble (keeps the number
			// of draws, and with it generation and shrinking time, bounded)
			base := reflect.ValueOf(genBacking(dt, 257, special).Draw(t, "base"))
			s := reflect.MakeSlice(reflect.SliceOf(dt.Type), n, n)
			for i := 0; i < n; i++ {
				s.Index(i).Set(base.Index((i*7919 + i/257) % 257))
			}
			return s.Interface()
		}
		s := reflect.MakeSlice(reflect.SliceOf(dt.Type), n, n)
		for i := 0; i < n; i++ {
			v := s.Index(i)
			switch {
			case dt == tensor.Float32:
				v.SetFloat(float64(float32(genFloat(special).Draw(t, "v"))))
			case dt == tensor.Float64:
				v.SetFloat(genFloat(special).Draw(t, "v"))
			case dt == tensor.Bool:
				v.SetBool(rapid.Bool().Draw(t, "v"))
			case isInt(dt):
				lo, hi, unsigned := intRangeOf(dt)
				k := rapid.IntRange(0, 9).Draw(t, "ik")
				var x int64
				switch {
				case k < 6 || !special:
					l, h := int64(-9), int64(9)
					if unsigned {
						l = 0
					}
					x = rapid.Int64Range(l, h).Draw(t, "v")
				case k < 8:
					x = rapid.SampledFrom([]int64{lo, hi, lo + 1, hi - 1, 0, 1}).Draw(t, "v")
				default:
					x = rapid.Int64Range(lo, hi).Draw(t, "v")
				}
				if unsigned {
					u := uint64(x)
					if dt == tensor.Uint64 && special && k >= 8 && rapid.Bool().Draw(t, "hi") {
						u |= 1 << 63
					}
					v.SetUint(u)
				} else {
					v.SetInt(x)
				}
			case dt == tensor.Complex64 || dt == tensor.Complex128:
				v.SetComplex(complex(float64(rapid.IntRange(-3, 3).Draw(t, "re")), float64(rapid.IntRange(-3, 3).Draw(t, "im"))))
			case dt == tensor.String:
				v.SetString(rapid.SampledFrom([]string{"", "a", "b", "ab"}).Draw(t, "v"))
			default:
				panic("genBacking: " + dt.String())
			}
		}
		return s.Interface()
	})
}

func genTensor(dt tensor.Dtype, shape []int, special bool) *rapid.Generator[tensor.Tensor] {
	return rapid.Custom(func(t *rapid.T) tensor.Tensor {
		return mkT(shape, genBacking(dt, prod(shape), special).Draw(t, "data"))
	})
}

// hasSpecial: does a float tensor contain NaN/Inf/-0/subnormal/huge values?
func hasSpecial(t tensor.Tensor) bool {
	if !isFloat(t.Dtype()) {
		if isInt(t.Dtype()) {
			lo, hi, _ := intRangeOf(t.Dtype())
			e := elems(t)
			for i := 0; i < e.Len(); i++ {
				var x int64
				if e.Index(i).CanInt() {
					x = e.Index(i).Int()
				} else {
					x = int64(e.Index(i).Uint())
				}
				if x == lo && lo != 0 || x == hi || x < -100 || x > 100 {
					return true
				}
			}
		}
		return false
	}
	for _, x := range f64s(t) {
		if math.IsNaN(x) || math.IsInf(x, 0) || (x == 0 && math.Signbit(x)) || math.Abs(x) > 1e6 || (x != 0 && math.Abs(x) < 1e-30) {
			return true
		}
	}
	return false
}

func min(a, b int) int {
	if a < b {
		return a
	}
	return b
}
func max(a, b int) int {
	if a > b {
		return a
	}
	return b
}

// drawMany returns n values from draw; beyond 2 048 values 257 draws are laid out by a fixed index
// scramble so that huge tensors do not cost one generator call per element.
func drawMany(n int, draw func() float64) []float64 {
	out := make([]float64, n)
	if n <= 2048 {
		for i := range out {
			out[i] = draw()
		}
		return out
	}
	base := make([]float64, 257)
	for i := range base {
		base[i] = draw()
	}
	for i := range out {
		out[i] = base[(i*7919+i/257)%257]
	}
	return out
}

// smallF32s: n "ordinary" float32 values in [-k, k] with 1/16 resolution (exactly representable
// sums for small cases), used where the statement is about structure rather than rounding.
func smallF32s(t *rapid.T, n int, k int, label string) []float32 {
	v := drawMany(n, func() float64 { return float64(rapid.IntRange(-16*k, 16*k).Draw(t, label)) / 16 })
	out := make([]float32, n)
	for i := range out {
		out[i] = float32(v[i])
	}
	return out
}

func f32sTo64(x []float32) []float64 {
	out := make([]float64, len(x))
	for i, v := range x {
		out[i] = float64(v)
	}
	return out
}

// forceOp, when non-empty and among the choices, replaces the operator draw of the family
// generators (used by C15's registry-independence check to get several cases of one operator).
var forceOp string

func drawOp(rt *rapid.T, choices []string) string {
	if forceOp != "" {
		for _, c := range choices {
			if c == forceOp {
				return c
			}
		}
	}
	return rapid.SampledFrom(choices).Draw(rt, "op")
}
