package harness

// C07 — Reshape, Flatten, Squeeze, Unsqueeze, Shape keep element order and give the ONNX shape.

import (
	"fmt"
	"sort"
	"testing"

	"github.com/advancedclimatesystems/gonnx/onnx"
	"github.com/advancedclimatesystems/gonnx/ops"
	"gorgonia.org/tensor"
	"pgregory.net/rapid"
)

func int64T(vals ...int64) tensor.Tensor { return mkT([]int{len(vals)}, vals) }

// factorise splits n into k factors (product n) by random draws.
func factorise(rt *rapid.T, n, k int) []int {
	out := make([]int, k)
	for i := range out {
		out[i] = 1
	}
	if k == 0 {
		return out
	}
	rem := n
	for rem > 1 {
		p := 2
		for rem%p != 0 {
			p++
		}
		out[rapid.IntRange(0, k-1).Draw(rt, "slot")] *= p
		rem /= p
	}
	return out
}

type c07Case struct {
	op      string
	x       tensor.Tensor
	node    *onnx.NodeProto
	aux     tensor.Tensor // shape / axes tensor (nil = absent)
	valid   bool
	want    []int
	feature string // what makes it non-trivial ("" = plain)
}

func (c c07Case) String() string {
	return fmt.Sprintf("%s x=%v%v aux=%s valid=%v want=%v", descNode(c.node), c.x.Dtype(), c.x.Shape(), descT(c.aux), c.valid, c.want)
}

// spell writes axis a (0-based, within rank r) in positive or negative spelling.
func spell(rt *rapid.T, a, r int) int64 {
	if rapid.Bool().Draw(rt, "neg") {
		return int64(a - r)
	}
	return int64(a)
}

func c07Gen(rt *rapid.T) c07Case {
	var c c07Case
	c.op = drawOp(rt, []string{"Reshape", "Flatten", "Squeeze", "Unsqueeze", "Shape"})
	dt := rapid.SampledFrom(ops.AllTypes).Draw(rt, "dtype")
	shape := genShape(0, 5, 4, 1500).Draw(rt, "shape")
	if c.op == "Squeeze" {
		// more size-1 axes so there is something to squeeze
		for i := range shape {
			if rapid.IntRange(0, 2).Draw(rt, "one") == 0 {
				shape[i] = 1
			}
		}
	}
	c.x = rangeSpecialT(dt, shape, rapid.IntRange(0, 63).Draw(rt, "contents"))
	r := len(shape)
	n := prod(shape)
	c.valid = true
	c.node = mkNode(c.op, nil, []string{"y"})
	switch c.op {
	case "Reshape":
		k := rapid.IntRange(1, 5).Draw(rt, "targetRank")
		tgt := factorise(rt, n, k)
		c.want = cloneInts(tgt)
		req := make([]int64, k)
		for i, d := range tgt {
			req[i] = int64(d)
		}
		if rapid.Bool().Draw(rt, "useZero") {
			for i := 0; i < k && i < r; i++ {
				if tgt[i] == shape[i] && rapid.Bool().Draw(rt, "zeroHere") {
					req[i] = 0
					c.feature = "zero-copy"
				}
			}
		}
		if rapid.Bool().Draw(rt, "useMinus1") {
			req[rapid.IntRange(0, k-1).Draw(rt, "m1")] = -1
			c.feature += "minus-one"
		}
		switch rapid.IntRange(0, 9).Draw(rt, "invalid") {
		case 0: // element-count mismatch
			i := rapid.IntRange(0, k-1).Draw(rt, "mm")
			hasM1 := false
			for _, v := range req {
				if v == -1 {
					hasM1 = true
				}
			}
			if req[i] > 0 {
				if hasM1 {
					// with a -1 present the count only mismatches if the product no longer divides n
					req[i] = int64(n + 1)
				} else {
					req[i] = req[i] + 1
				}
				c.valid, c.feature = false, "invalid-count"
			}
		case 1: // two -1 entries
			if k >= 2 {
				i := rapid.IntRange(0, k-2).Draw(rt, "m1a")
				req[i], req[i+1] = -1, -1
				c.valid, c.feature = false, "invalid-two-minus-one"
			}
		case 2: // 0 beyond the input rank
			if k > r {
				req[r] = 0
				c.valid, c.feature = false, "invalid-zero-beyond-rank"
			}
		case 3: // another negative entry
			req[rapid.IntRange(0, k-1).Draw(rt, "negi")] = int64(-rapid.IntRange(2, 4).Draw(rt, "negv"))
			c.valid, c.feature = false, "invalid-negative"
		}
		c.aux = int64T(req...)
	case "Flatten":
		if rapid.IntRange(0, 3).Draw(rt, "axisAbsent") == 0 {
			c.valid = r >= 1
			if c.valid {
				c.want = []int{prod(shape[:1]), prod(shape[1:])}
			} else {
				c.feature = "invalid-default-axis-rank0"
			}
		} else {
			ax := rapid.IntRange(-r-2, r+2).Draw(rt, "axis")
			c.node = mkNode(c.op, nil, []string{"y"}, attrI("axis", int64(ax)))
			c.valid = ax >= -r && ax <= r
			if c.valid {
				a := ax
				if a < 0 {
					a += r
					c.feature = "negative-axis"
				}
				c.want = []int{prod(shape[:a]), prod(shape[a:])}
			} else {
				c.feature = "invalid-axis"
			}
		}
	case "Squeeze":
		var ones []int
		for i, d := range shape {
			if d == 1 {
				ones = append(ones, i)
			}
		}
		if rapid.IntRange(0, 3).Draw(rt, "axesAbsent") == 0 || r == 0 {
			for _, d := range shape {
				if d != 1 {
					c.want = append(c.want, d)
				}
			}
			if c.want == nil {
				c.want = []int{}
			}
			break
		}
		// subset of the size-1 axes in random order and spelling
		perm := rapid.Permutation(ones).Draw(rt, "perm")
		k := 0
		if len(perm) > 0 {
			k = rapid.IntRange(1, len(perm)).Draw(rt, "k")
		}
		sel := perm[:k]
		var axes []int64
		for _, a := range sel {
			s := spell(rt, a, r)
			if s < 0 {
				c.feature = "negative-axis"
			}
			axes = append(axes, s)
		}
		if !sort.IntsAreSorted(sel) {
			c.feature += "unsorted"
		}
		switch rapid.IntRange(0, 7).Draw(rt, "invalid") {
		case 0: // out of range
			v := int64(r + rapid.IntRange(0, 3).Draw(rt, "oor"))
			if rapid.Bool().Draw(rt, "oorNeg") {
				v = int64(-r - 1 - rapid.IntRange(0, 3).Draw(rt, "oor2"))
			}
			axes = append(axes, v)
			c.valid, c.feature = false, "invalid-out-of-range"
		case 1: // duplicate (possibly in the other spelling)
			if len(sel) > 0 {
				a := sel[rapid.IntRange(0, len(sel)-1).Draw(rt, "dup")]
				axes = append(axes, spell(rt, a, r))
				c.valid, c.feature = false, "invalid-duplicate"
			}
		case 2: // an axis whose extent is not 1
			var non []int
			for i, d := range shape {
				if d != 1 {
					non = append(non, i)
				}
			}
			if len(non) > 0 {
				axes = append(axes, spell(rt, rapid.SampledFrom(non).Draw(rt, "non1"), r))
				c.valid, c.feature = false, "invalid-extent-not-1"
			}
		}
		if len(axes) == 0 {
			// nothing selectable: fall back to the absent form
			for _, d := range shape {
				if d != 1 {
					c.want = append(c.want, d)
				}
			}
			if c.want == nil {
				c.want = []int{}
			}
			break
		}
		c.aux = int64T(axes...)
		if c.valid {
			drop := map[int]bool{}
			for _, a := range sel {
				drop[a] = true
			}
			c.want = []int{}
			for i, d := range shape {
				if !drop[i] {
					c.want = append(c.want, d)
				}
			}
			if len(axes) == 1 {
				c.feature += "one-element-axes"
			}
		}
	case "Unsqueeze":
		k := rapid.IntRange(1, 3).Draw(rt, "k")
		outRank := r + k
		pos := rapid.Permutation(seq(outRank)).Draw(rt, "pos")[:k]
		var axes []int64
		for _, a := range pos {
			s := spell(rt, a, outRank)
			if s < 0 {
				c.feature = "negative-axis"
			}
			axes = append(axes, s)
		}
		if !sort.IntsAreSorted(pos) {
			c.feature += "unsorted"
		}
		switch rapid.IntRange(0, 7).Draw(rt, "invalid") {
		case 0:
			v := int64(outRank + rapid.IntRange(0, 2).Draw(rt, "oor"))
			if rapid.Bool().Draw(rt, "oorNeg") {
				v = int64(-outRank - 1 - rapid.IntRange(0, 2).Draw(rt, "oor2"))
			}
			axes[rapid.IntRange(0, k-1).Draw(rt, "oorAt")] = v
			c.valid, c.feature = false, "invalid-out-of-range"
		case 1:
			if k >= 2 {
				// duplicate after normalisation, in the other spelling
				a := pos[0]
				if axes[0] < 0 {
					axes[1] = int64(a)
				} else {
					axes[1] = int64(a - outRank)
				}
				c.valid, c.feature = false, "invalid-duplicate"
			}
		}
		c.aux = int64T(axes...)
		if c.valid {
			isNew := map[int]bool{}
			for _, a := range pos {
				isNew[a] = true
			}
			c.want = make([]int, 0, outRank)
			j := 0
			for i := 0; i < outRank; i++ {
				if isNew[i] {
					c.want = append(c.want, 1)
				} else {
					c.want = append(c.want, shape[j])
					j++
				}
			}
			if k == 1 {
				c.feature += "one-element-axes"
			}
		}
	case "Shape":
		c.want = []int{r}
	}
	return c
}

func seq(n int) []int {
	s := make([]int, n)
	for i := range s {
		s[i] = i
	}
	return s
}

func (c c07Case) inputs() []tensor.Tensor {
	switch c.op {
	case "Flatten", "Shape":
		return []tensor.Tensor{cloneT(c.x)}
	case "Squeeze":
		if c.aux == nil {
			return []tensor.Tensor{cloneT(c.x)}
		}
	}
	return []tensor.Tensor{cloneT(c.x), cloneT(c.aux)}
}

func c07Judge(c c07Case, res opResult) string {
	if res.panicked {
		if !c.valid && c.op == "Flatten" && kfAccept("KF-C07-flatten-axis-panic") {
			return ""
		}
		if !c.valid && c.op == "Reshape" && c.feature == "invalid-negative" && kfAccept("KF-C07-reshape-negative-dim-panic") {
			return ""
		}
		return "panic (a panic is not an error value): " + fmt.Sprint(res.panicVal)
	}
	if !c.valid {
		if res.err == nil {
			if c.op == "Squeeze" && (c.feature == "invalid-out-of-range" || c.feature == "invalid-duplicate") && kfAccept("KF-C07-squeeze-invalid-axes-accepted") {
				return ""
			}
			return "invalid request answered with a tensor: " + res.String()
		}
		return ""
	}
	if res.err != nil {
		return "valid request refused: " + res.err.Error()
	}
	if len(res.outs) != 1 || res.outs[0] == nil {
		return "expected exactly one non-nil output"
	}
	out := res.outs[0]
	if c.op == "Shape" {
		if out.Dtype() != tensor.Int64 {
			return fmt.Sprintf("Shape result dtype %v, want int64", out.Dtype())
		}
		r := len(c.x.Shape())
		if r == 0 {
			// a length-0 tensor: gorgonia cannot expose its (empty) data; only the header is asserted
			if !eqInts(out.Shape(), []int{0}) {
				return fmt.Sprintf("Shape of a rank-0 tensor has shape %v, want (0)", out.Shape())
			}
			return ""
		}
		if !eqInts(out.Shape(), []int{r}) {
			return fmt.Sprintf("Shape result has shape %v, want (%d)", out.Shape(), r)
		}
		g := elems(out)
		for i, d := range c.x.Shape() {
			if g.Index(i).Int() != int64(d) {
				return fmt.Sprintf("Shape result %v, want %v", g.Interface(), c.x.Shape())
			}
		}
		return ""
	}
	if !eqInts(out.Shape(), c.want) {
		return fmt.Sprintf("shape %v, want %v", out.Shape(), c.want)
	}
	if out.Dtype() != c.x.Dtype() {
		return fmt.Sprintf("dtype %v, want %v", out.Dtype(), c.x.Dtype())
	}
	a, b := bitsAll(c.x), bitsAll(out)
	if len(a) != len(b) {
		return fmt.Sprintf("%d elements, want %d", len(b), len(a))
	}
	for i := range a {
		if a[i] != b[i] {
			return fmt.Sprintf("element %d differs from the input's element %d (row-major order not preserved)", i, i)
		}
	}
	return ""
}

func TestC07(t *testing.T) {
	ev.Begin("C07",
		"rapid: operator drawn from the 5, input of rank 0..5 with extents 1..4 and contents 0,1,2,… in any of the 14 element types; Reshape targets from a random factorisation with 0 / -1 substitutions and four invalid forms; Flatten axis in [-rank-2, rank+2] or absent; Squeeze/Unsqueeze axes as random subsets in random order and spelling, 1-element axes tensors, and invalid (out of range, duplicate, extent != 1) forms. "+
			"Non-trivial = the request uses a 0/-1 entry, a negative or unsorted axis, a 1-element axes tensor, or is invalid; distinct = (op, attributes, input shape, dtype, request).",
		"oracle: flat element sequence identical to the input's, shape from the ONNX rule; invalid requests must give an error value (a panic is not an error)")
	defer reportKnownFindings("C07")

	check(t, "ops", 40000, 400000, func(rt *rapid.T) {
		c := c07Gen(rt)
		res := runOp(c.op, c.node, c.inputs())
		cls := []string{"op-" + c.op, fmt.Sprintf("rank-%d", len(c.x.Shape()))}
		if c.valid {
			cls = append(cls, "valid")
		} else {
			cls = append(cls, c.op+"-"+c.feature)
		}
		ev.Case("C07", c.String(), c.feature != "", cls...)
		if v := c07Judge(c, res); v != "" {
			rt.Fatalf("C07 violated by %v: %s", c, v)
		}
		if rapid.IntRange(0, 5).Draw(rt, "reuseInstance") == 0 {
			forceOp = c.op
			other := c07Gen(rt)
			forceOp = ""
			ev.Class("C07", "instance-reused")
			if d := reuseDifferential(c.op, c.node, other.inputs(), c.inputs()); d != "" {
				rt.Fatalf("C07 violated by %v after the same operator instance served %v: %s", c, other, d)
			}
		}
		if _, enc := onnxTypeOf[c.x.Dtype()]; enc && rapid.IntRange(0, 4).Draw(rt, "modelLevel") == 0 {
			mres := runSingleNodeModel(c.node, c.inputs(), 1)
			ev.Class("C07", "model-level")
			if len(c.x.Shape()) == 0 && c.op == "Shape" {
				return // length-0 result cannot be compared element-wise
			}
			if d := agreeLevels(res, mres); d != "" {
				rt.Fatalf("C07 violated by %v: single-node model disagrees with operator API: %s", c, d)
			}
		}
	})
}

func init() {
	kfRepro["KF-C07-reshape-negative-dim-panic"] = func() (bool, string) {
		r := runOp("Reshape", mkNode("Reshape", nil, nil), []tensor.Tensor{rangeT(tensor.Float32, []int{2}), int64T(-1, -2)})
		return r.panicked, "Reshape((2), [-1,-2]) -> " + r.String()
	}
	kfRepro["KF-C07-squeeze-invalid-axes-accepted"] = func() (bool, string) {
		x := rangeT(tensor.Float32, []int{1, 2, 1})
		r1 := runOp("Squeeze", mkNode("Squeeze", nil, nil), []tensor.Tensor{x, int64T(7)})
		r2 := runOp("Squeeze", mkNode("Squeeze", nil, nil), []tensor.Tensor{cloneT(x), int64T(0, -3)})
		return r1.ok() || r2.ok(), fmt.Sprintf("Squeeze((1,2,1), axes=[7]) -> %v; axes=[0,-3] -> %v", r1, r2)
	}
	kfRepro["KF-C07-flatten-axis-panic"] = func() (bool, string) {
		r1 := runOp("Flatten", mkNode("Flatten", nil, nil, attrI("axis", 4)), []tensor.Tensor{rangeT(tensor.Float32, []int{2, 3})})
		r2 := runOp("Flatten", mkNode("Flatten", nil, nil), []tensor.Tensor{mkT(nil, []float32{1})})
		return r1.panicked || r2.panicked, fmt.Sprintf("Flatten((2,3), axis=4) -> %v; Flatten(rank 0) -> %v", r1, r2)
	}
}
