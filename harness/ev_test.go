package harness

// Evidence accounting shared by every check. Each property function calls ev.Case(...) once per
// executed case; the numbers that end up in /verif/evidence/<id>.json are measured here and merged
// over shards by the driver (/verif/check).

import (
	"encoding/binary"
	"encoding/json"
	"fmt"
	"hash/fnv"
	"os"
	"sort"
	"strconv"
	"sync"
	"testing"
	"time"
)

type evidence struct {
	mu          sync.Mutex
	property    string
	rule        string
	assumptions []string
	start       time.Time
	evaluations int
	perSub      map[string]int
	ntPerSub    map[string]int
	nontrivial  map[uint64]struct{}
	classes     map[string]int
	refusals    map[string]int
	kfHits      map[string]int
	first       []string
	lowest      []sample // the k samples with the lowest hash: a deterministic "random" selection
	exhaustive  map[string]bool
	extra       map[string]any
}

type sample struct {
	h    uint64
	desc string
}

var ev = &evidence{
	perSub:     map[string]int{},
	ntPerSub:   map[string]int{},
	nontrivial: map[uint64]struct{}{},
	classes:    map[string]int{},
	refusals:   map[string]int{},
	kfHits:     map[string]int{},
	exhaustive: map[string]bool{},
	extra:      map[string]any{},
	start:      time.Now(),
}

func hash64(s string) uint64 {
	h := fnv.New64a()
	_, _ = h.Write([]byte(s))
	return h.Sum64()
}

// Begin names the property this process is working on and the rule that is written to evidence.
func (e *evidence) Begin(property, rule string, assumptions ...string) {
	e.mu.Lock()
	defer e.mu.Unlock()
	e.property = property
	e.rule = rule
	e.assumptions = assumptions
}

// Case records one executed case. desc is the canonical description of the case (used for
// distinctness and as the sample text); nontrivial says whether it satisfies the property's
// non-trivial rule; classes are histogram labels.
func (e *evidence) Case(sub, desc string, nontrivial bool, classes ...string) {
	e.mu.Lock()
	defer e.mu.Unlock()
	e.evaluations++
	e.perSub[sub]++
	for _, c := range classes {
		e.classes[sub+":"+c]++
	}
	if !nontrivial {
		return
	}
	h := hash64(sub + "|" + desc)
	if _, ok := e.nontrivial[h]; ok {
		return
	}
	e.nontrivial[h] = struct{}{}
	e.ntPerSub[sub]++
	full := sub + ": " + desc
	if len(full) > 700 {
		full = full[:700] + "…"
	}
	if len(e.first) < 3 {
		e.first = append(e.first, full)
		return
	}
	const k = 5
	if len(e.lowest) < k {
		e.lowest = append(e.lowest, sample{h, full})
		sort.Slice(e.lowest, func(i, j int) bool { return e.lowest[i].h < e.lowest[j].h })
	} else if h < e.lowest[k-1].h {
		e.lowest[k-1] = sample{h, full}
		sort.Slice(e.lowest, func(i, j int) bool { return e.lowest[i].h < e.lowest[j].h })
	}
}

// Class bumps a histogram label without counting a case.
func (e *evidence) Class(sub, c string) {
	e.mu.Lock()
	e.classes[sub+":"+c]++
	e.mu.Unlock()
}

// Refused records an error outcome that the property allows.
// refusalReason normalises an error message (digits and quoted parts removed, truncated) so that
// refusals can be counted per reason in the evidence.
func refusalReason(err error) string {
	if err == nil {
		return "none"
	}
	m := err.Error()
	out := make([]rune, 0, len(m))
	for _, r := range m {
		if r >= '0' && r <= '9' {
			if len(out) > 0 && out[len(out)-1] == '#' {
				continue
			}
			r = '#'
		}
		out = append(out, r)
	}
	if len(out) > 90 {
		out = out[:90]
	}
	return string(out)
}

func (e *evidence) Refused(sub string) {
	e.mu.Lock()
	e.refusals[sub]++
	e.mu.Unlock()
}

// KF records that an open known finding explained a deviating case.
func (e *evidence) KF(id string) {
	e.mu.Lock()
	e.kfHits[id]++
	e.mu.Unlock()
}

func (e *evidence) Exhaustive(sub string, v bool) {
	e.mu.Lock()
	e.exhaustive[sub] = v
	e.mu.Unlock()
}

func (e *evidence) Extra(k string, v any) {
	e.mu.Lock()
	e.extra[k] = v
	e.mu.Unlock()
}

type evidencePart struct {
	Property    string          `json:"property"`
	Rule        string          `json:"rule"`
	Assumptions []string        `json:"assumptions"`
	Evaluations int             `json:"evaluations"`
	PerSub      map[string]int  `json:"per_sub"`
	NtPerSub    map[string]int  `json:"nontrivial_per_sub"`
	Distinct    int             `json:"distinct_nontrivial"`
	Classes     map[string]int  `json:"classes"`
	Refusals    map[string]int  `json:"refusals"`
	KFHits      map[string]int  `json:"known_finding_hits"`
	Samples     []string        `json:"samples"`
	Exhaustive  map[string]bool `json:"exhaustive"`
	Extra       map[string]any  `json:"extra"`
	WallS       float64         `json:"wall_s"`
	Failed      bool            `json:"failed"`
}

// Flush writes the part file named by VERIF_EVIDENCE_PART (JSON) and <part>.hashes (raw
// little-endian uint64 hashes of the distinct non-trivial cases, merged as a set by the driver).
func (e *evidence) Flush(failed bool) {
	e.mu.Lock()
	defer e.mu.Unlock()
	path := os.Getenv("VERIF_EVIDENCE_PART")
	if path == "" {
		return
	}
	p := evidencePart{
		Property: e.property, Rule: e.rule, Assumptions: e.assumptions,
		Evaluations: e.evaluations, PerSub: e.perSub, NtPerSub: e.ntPerSub,
		Distinct: len(e.nontrivial), Classes: e.classes, Refusals: e.refusals,
		KFHits: e.kfHits, Exhaustive: e.exhaustive, Extra: e.extra,
		WallS: time.Since(e.start).Seconds(), Failed: failed,
	}
	p.Samples = append(p.Samples, e.first...)
	for _, s := range e.lowest {
		p.Samples = append(p.Samples, s.desc)
	}
	b, _ := json.MarshalIndent(p, "", " ")
	_ = os.WriteFile(path, b, 0o644)
	hb := make([]byte, 0, 8*len(e.nontrivial))
	for h := range e.nontrivial {
		hb = binary.LittleEndian.AppendUint64(hb, h)
	}
	_ = os.WriteFile(path+".hashes", hb, 0o644)
}

// ---------------------------------------------------------------------------------------------
// tiers, seeds, budgets

func tier() string {
	if os.Getenv("VERIF_TIER") == "thorough" {
		return "thorough"
	}
	return "quick"
}

func envInt(name string, def int) int {
	if v, err := strconv.Atoi(os.Getenv(name)); err == nil {
		return v
	}
	return def
}

// budget returns the number of rapid checks for a sub-check: q in the quick tier, th per shard in
// the thorough tier. VERIF_SCALE (percent) scales both, for development.
func budget(q, th int) int {
	n := q
	if tier() == "thorough" {
		n = th
	}
	n = n * envInt("VERIF_SCALE", 100) / 100
	if n < 1 {
		n = 1
	}
	return n
}

func shard() int  { return envInt("VERIF_SHARD", 0) }
func shards() int { return envInt("VERIF_SHARDS", 1) }

// TestMain flushes evidence whatever happens.
func TestMain(m *testing.M) {
	loadKnownFindings()
	code := m.Run()
	if pinnedFailed && code == 0 {
		code = 1
	}
	ev.Flush(code != 0)
	os.Exit(code)
}

func sprintf(f string, a ...any) string { return fmt.Sprintf(f, a...) }
