package harness

// Generator of well-formed DAG-shaped models over the supported operators, built from a typed value
// pool with shape inference done by the generator (graphs are well-typed by construction), with
// batch-axis tracking so that the same generator serves C01 (composition), C02 (histories), C16
// (batch independence), C17 (concurrency) and C18 (structured perturbation).

import (
	"fmt"
	"sort"
	"strings"

	"github.com/advancedclimatesystems/gonnx"
	"github.com/advancedclimatesystems/gonnx/onnx"
	"gorgonia.org/tensor"
	"pgregory.net/rapid"
)

type gv struct {
	name  string
	shape []int // concrete at generation time (batch extent = gg.batchN)
	dt    tensor.Dtype
	batch int // index of the batch axis, -1 = none (weights, constants)
	init  bool
	// noisy: downstream of an operator whose float kernel (gonum/vecf32 assembly dot products and
	// sums) rounds differently depending on the memory alignment of its operands; such values are
	// reproducible only up to rounding, so discontinuous operators are never applied to them and
	// comparisons on them use a rounding tolerance
	noisy bool
}

var noisyOps = map[string]bool{"MatMul": true, "Gemm": true, "LinearRegressor": true, "Conv": true, "RNN": true, "GRU": true, "LSTM": true,
	"Softmax": true, "LogSoftmax": true}

type ggOpts struct {
	maxNodes  int
	perSample bool // only operators that act per sample along the tracked batch axis; no dependence on N
	// aliasRoutes biases generation towards the in-place mutation sites named by C02's anchors
	aliasRoutes bool
	// weightOps biases generation towards every operator family that reads weights or
	// attribute-backed tensors (C17's quantifier)
	weightOps  bool
	allOutputs bool // declare every intermediate value as graph output
	// continuousOnly leaves out operators whose result is a discontinuous function of float inputs
	// (comparisons, ArgMax, Cast to integers), so that metamorphic relations with a rounding
	// tolerance cannot be upset by a legitimately flipped tie
	continuousOnly bool
}

type ggraph struct {
	opts     ggOpts
	nodes    []*onnx.NodeProto
	pool     []gv
	inputs   []gv
	inits    []*onnx.TensorProto
	initVals map[string]tensor.Tensor
	shadowed map[string]bool // initializers that are also declared as graph inputs
	feats    map[string]int
	batchN   int
	counter  int
	usedDoc  bool
	attrSeen map[string]map[string]bool // op type -> set of attribute descriptions
	mixing   bool                       // contains an operator that mixes along a non-batch axis
	weighted bool                       // contains an operator that reads a weight
	shortOut bool                       // some node lists fewer outputs than its operator returns
	usedAsIn map[string]int             // value name -> number of consumers
}

func (gg *ggraph) fresh(prefix string) string {
	gg.counter++
	return fmt.Sprintf("%s%d", prefix, gg.counter)
}

func (gg *ggraph) feat(f string) { gg.feats[f]++ }

func (gg *ggraph) addInit(t tensor.Tensor) gv {
	name := gg.fresh("w")
	typed := false
	if t.Dtype() == tensor.Float32 || t.Dtype() == tensor.Int64 {
		typed = gg.counter%3 == 0 // typed-field initializers share storage with the protobuf
	}
	tp := encodeTensor(name, t.Shape(), elems(t).Interface(), typed)
	gg.inits = append(gg.inits, tp)
	gg.initVals[name] = t
	v := gv{name: name, shape: cloneInts(t.Shape()), dt: t.Dtype(), batch: -1, init: true}
	return v
}

func (gg *ggraph) emit(op string, ins []string, outs []gv, attrs ...*onnx.AttributeProto) {
	names := make([]string, len(outs))
	for i, o := range outs {
		names[i] = o.name
	}
	n := mkNode(op, ins, names, attrs...)
	// node names are optional in ONNX: mostly absent, sometimes unique, sometimes equal to the
	// first output name of an earlier node (names and value names live in different namespaces)
	switch gg.counter % 7 {
	case 1:
		n.Name = fmt.Sprintf("node_%d", len(gg.nodes))
	case 2:
		if len(gg.nodes) > 0 && len(gg.nodes[len(gg.nodes)-1].Output) > 0 {
			n.Name = gg.nodes[len(gg.nodes)-1].Output[0]
		}
	case 3, 4:
		n.Name = "layer" // node names are diagnostic only: several nodes may carry the same one
	}
	gg.nodes = append(gg.nodes, n)
	for _, i := range ins {
		if i != "" {
			gg.usedAsIn[i]++
			if gg.usedAsIn[i] == 2 {
				gg.feat("fan-out")
			}
		}
	}
	noisy := noisyOps[op]
	for _, i := range ins {
		for _, v := range gg.pool {
			if v.name == i && v.noisy {
				noisy = true
			}
		}
	}
	for _, o := range outs {
		if o.name != "" {
			o.noisy = noisy
			gg.pool = append(gg.pool, o)
		}
	}
	d := descNode(n)
	if gg.attrSeen[op] == nil {
		gg.attrSeen[op] = map[string]bool{}
	}
	if len(gg.attrSeen[op]) >= 1 && !gg.attrSeen[op][d] {
		gg.feat("repeated-op-type-different-attributes")
	}
	gg.attrSeen[op][d] = true
	gg.feat("op-" + op)
}

// pick returns the pool values satisfying pred.
func (gg *ggraph) pick(rt *rapid.T, label string, pred func(gv) bool) (gv, bool) {
	var c []gv
	for _, v := range gg.pool {
		if pred(v) {
			c = append(c, v)
		}
	}
	if len(c) == 0 {
		return gv{}, false
	}
	// prefer recent values (deeper graphs) but keep fan-out possible
	if len(c) > 3 && rapid.Bool().Draw(rt, label+"Recent") {
		c = c[len(c)-3:]
	}
	return rapid.SampledFrom(c).Draw(rt, label), true
}

func isF32(v gv) bool { return v.dt == tensor.Float32 }

func (gg *ggraph) out(shape []int, dt tensor.Dtype, batch int) gv {
	return gv{name: gg.fresh("v"), shape: shape, dt: dt, batch: batch}
}

func f32Init(rt *rapid.T, shape []int, k int, label string) tensor.Tensor {
	return mkT(shape, smallF32s(rt, prod(shape), k, label))
}

func i64s(v []int) []int64 {
	o := make([]int64, len(v))
	for i, x := range v {
		o[i] = int64(x)
	}
	return o
}

// weightShapeFor: a shape broadcastable to v without touching the batch axis.
func weightShapeFor(rt *rapid.T, v gv) []int {
	s := cloneInts(v.shape)
	for i := range s {
		if i == v.batch || rapid.IntRange(0, 2).Draw(rt, "wOne") == 0 {
			s[i] = 1
		}
	}
	// drop leading axes (all those up to and including the batch axis may go)
	maxDrop := 0
	for maxDrop < len(s) && s[maxDrop] == 1 {
		maxDrop++
	}
	if maxDrop > 0 {
		s = s[rapid.IntRange(0, maxDrop).Draw(rt, "wDrop"):]
	}
	return s
}

type gtemplate func(gg *ggraph, rt *rapid.T) bool

func tUnary(gg *ggraph, rt *rapid.T) bool {
	v, ok := gg.pick(rt, "unaryIn", isF32)
	if !ok {
		return false
	}
	op := rapid.SampledFrom([]string{"Abs", "Relu", "Tanh", "Sigmoid", "Sin", "Cos", "Atan", "Asinh", "Tanh", "Relu"}).Draw(rt, "unaryOp")
	gg.emit(op, []string{v.name}, []gv{gg.out(cloneInts(v.shape), v.dt, v.batch)})
	return true
}

func tBinaryInit(gg *ggraph, rt *rapid.T) bool {
	v, ok := gg.pick(rt, "binIn", isF32)
	if !ok {
		return false
	}
	op := rapid.SampledFrom([]string{"Add", "Sub", "Mul", "Div"}).Draw(rt, "binOp")
	w := f32Init(rt, weightShapeFor(rt, v), 2, "w")
	if op == "Div" {
		w = mkT(w.Shape(), backingOf(tensor.Float32, prod(w.Shape()), func(i int) float64 { return float64(i%3) + 1.5 }))
	}
	wi := gg.addInit(w)
	gg.weighted = true
	ins := []string{v.name, wi.name}
	// a generated value is never used as divisor: it may be arbitrarily close to zero, which would
	// amplify rounding-level differences without bound
	if op != "Div" && rapid.Bool().Draw(rt, "weightFirst") && len(wi.shape) <= len(v.shape) {
		ins = []string{wi.name, v.name}
	}
	gg.emit(op, ins, []gv{gg.out(cloneInts(v.shape), v.dt, v.batch)})
	return true
}

func tBinaryValues(gg *ggraph, rt *rapid.T) bool {
	a, ok := gg.pick(rt, "binA", func(v gv) bool { return isF32(v) && !v.init })
	if !ok {
		return false
	}
	b, ok := gg.pick(rt, "binB", func(v gv) bool { return isF32(v) && !v.init && eqInts(v.shape, a.shape) && v.batch == a.batch })
	if !ok {
		return false
	}
	op := rapid.SampledFrom([]string{"Add", "Sub", "Mul"}).Draw(rt, "binOp2")
	gg.emit(op, []string{a.name, b.name}, []gv{gg.out(cloneInts(a.shape), a.dt, a.batch)})
	gg.feat("fan-in")
	return true
}

func tCompareLogic(gg *ggraph, rt *rapid.T) bool {
	if gg.opts.continuousOnly {
		return false
	}
	if b, ok := gg.pick(rt, "boolIn", func(v gv) bool { return v.dt == tensor.Bool }); ok && rapid.Bool().Draw(rt, "logic") {
		if rapid.IntRange(0, 2).Draw(rt, "not") == 0 {
			gg.emit("Not", []string{b.name}, []gv{gg.out(cloneInts(b.shape), tensor.Bool, b.batch)})
			return true
		}
		if c, ok := gg.pick(rt, "boolIn2", func(v gv) bool { return v.dt == tensor.Bool && eqInts(v.shape, b.shape) && v.batch == b.batch }); ok {
			op := rapid.SampledFrom([]string{"And", "Or", "Xor"}).Draw(rt, "logicOp")
			gg.emit(op, []string{b.name, c.name}, []gv{gg.out(cloneInts(b.shape), tensor.Bool, b.batch)})
			return true
		}
	}
	v, ok := gg.pick(rt, "cmpIn", func(v gv) bool { return isF32(v) && !v.noisy })
	if !ok {
		return false
	}
	op := rapid.SampledFrom([]string{"Less", "Greater", "LessOrEqual", "GreaterOrEqual", "Equal"}).Draw(rt, "cmpOp")
	wi := gg.addInit(f32Init(rt, weightShapeFor(rt, v), 1, "thr"))
	gg.emit(op, []string{v.name, wi.name}, []gv{gg.out(cloneInts(v.shape), tensor.Bool, v.batch)})
	return true
}

// tGemmTransA: the transA forms, which contract over the rows of the data operand (so they are not
// per-sample): Gemm(W^T-as-A, x) with the weight as first operand, or Gemm(x^T, W).
func tGemmTransA(gg *ggraph, rt *rapid.T) bool {
	if gg.opts.perSample {
		return false
	}
	v, ok := gg.pick(rt, "gemmTA", func(v gv) bool { return isF32(v) && len(v.shape) == 2 && !v.init })
	if !ok {
		return false
	}
	r0, r1 := v.shape[0], v.shape[1]
	var ins []string
	var out []int
	attrs := []*onnx.AttributeProto{attrI("transA", 1)}
	if rapid.Bool().Draw(rt, "weightIsA") {
		m := rapid.IntRange(1, 4).Draw(rt, "gemmM")
		w := gg.addInit(f32Init(rt, []int{r0, m}, 1, "gemmWA")) // (K,M), transposed to (M,K)
		ins, out = []string{w.name, v.name}, []int{m, r1}
		gg.feat("gemm-transA-weight")
	} else {
		n := rapid.IntRange(1, 4).Draw(rt, "gemmN")
		w := gg.addInit(f32Init(rt, []int{r0, n}, 1, "gemmWB"))
		ins, out = []string{v.name, w.name}, []int{r1, n}
	}
	if rapid.Bool().Draw(rt, "gemmTAC") {
		c := gg.addInit(f32Init(rt, []int{out[1]}, 1, "gemmC"))
		ins = append(ins, c.name)
		attrs = append(attrs, attrF("beta", float32(rapid.SampledFrom([]float64{0.5, -1, 2}).Draw(rt, "betaV"))))
	}
	gg.emit("Gemm", ins, []gv{gg.out(out, v.dt, -1)}, attrs...)
	gg.mixing, gg.weighted = true, true
	return true
}

func tGemm(gg *ggraph, rt *rapid.T) bool {
	if rapid.IntRange(0, 3).Draw(rt, "gemmTransA") == 0 && tGemmTransA(gg, rt) {
		return true
	}
	a, ok := gg.pick(rt, "gemmA", func(v gv) bool { return isF32(v) && len(v.shape) == 2 && v.batch <= 0 && !v.init })
	if !ok {
		return false
	}
	m, k := a.shape[0], a.shape[1]
	n := rapid.IntRange(1, 4).Draw(rt, "gemmN")
	transB := rapid.Bool().Draw(rt, "transB")
	bs := []int{k, n}
	if transB {
		bs = []int{n, k}
	}
	b := gg.addInit(f32Init(rt, bs, 1, "gemmB"))
	ins := []string{a.name, b.name}
	var attrs []*onnx.AttributeProto
	if transB {
		attrs = append(attrs, attrI("transB", 1))
	}
	if rapid.Bool().Draw(rt, "alpha") {
		attrs = append(attrs, attrF("alpha", float32(rapid.SampledFrom([]float64{0.5, -1, 2, 1.5}).Draw(rt, "alphaV"))))
	}
	if cform := rapid.IntRange(0, 4).Draw(rt, "gemmC"); cform > 0 {
		cs := [][]int{nil, {n}, {1, n}, {1}, {}}[cform]
		c := gg.addInit(f32Init(rt, cs, 1, "gemmC"))
		ins = append(ins, c.name)
		if rapid.Bool().Draw(rt, "beta") {
			attrs = append(attrs, attrF("beta", float32(rapid.SampledFrom([]float64{0.5, -1, 2, 0}).Draw(rt, "betaV"))))
		}
	}
	gg.emit("Gemm", ins, []gv{gg.out([]int{m, n}, a.dt, a.batch)}, attrs...)
	gg.mixing, gg.weighted = true, true
	return true
}

func tMatMul(gg *ggraph, rt *rapid.T) bool {
	a, ok := gg.pick(rt, "mmA", func(v gv) bool {
		return isF32(v) && len(v.shape) >= 2 && len(v.shape) <= 4 && v.batch != len(v.shape)-1 && !v.init
	})
	if !ok {
		return false
	}
	k := a.shape[len(a.shape)-1]
	switch rapid.IntRange(0, 5).Draw(rt, "mmForm") {
	case 0:
		// a rank-1 weight as second operand: the contracted axis disappears from the result
		b := gg.addInit(f32Init(rt, []int{k}, 1, "mmVecB"))
		gg.emit("MatMul", []string{a.name, b.name}, []gv{gg.out(cloneInts(a.shape[:len(a.shape)-1]), a.dt, a.batch)})
		gg.feat("matmul-vector-weight")
		gg.mixing, gg.weighted = true, true
		return true
	case 1:
		// a rank-1 weight as first operand contracts the second-to-last axis
		if r := len(a.shape); a.batch != r-2 {
			w := gg.addInit(f32Init(rt, []int{a.shape[r-2]}, 1, "mmVecA"))
			out := append(cloneInts(a.shape[:r-2]), a.shape[r-1])
			nb := a.batch
			if nb == r-1 {
				nb = r - 2
			}
			gg.emit("MatMul", []string{w.name, a.name}, []gv{gg.out(out, a.dt, nb)})
			gg.feat("matmul-vector-weight")
			gg.mixing, gg.weighted = true, true
			return true
		}
	}
	n := rapid.IntRange(1, 4).Draw(rt, "mmN")
	b := gg.addInit(f32Init(rt, []int{k, n}, 1, "mmB"))
	out := cloneInts(a.shape)
	out[len(out)-1] = n
	if len(a.shape) != 2 {
		// input class of the MatMul unit-matrix finding: on the batched path a one-element matrix
		// (for a single sample when the rows are the batch axis) is refused
		m1 := a.shape[len(a.shape)-2]
		if a.batch == len(a.shape)-2 {
			m1 = 1
		}
		if m1*k == 1 || k*n == 1 {
			gg.feat("matmul-unit-matrix-for-single-sample")
		}
	}
	gg.emit("MatMul", []string{a.name, b.name}, []gv{gg.out(out, a.dt, a.batch)})
	gg.mixing, gg.weighted = true, true
	return true
}

func tFlatten(gg *ggraph, rt *rapid.T) bool {
	v, ok := gg.pick(rt, "flatIn", func(v gv) bool { return len(v.shape) >= 1 && v.batch <= 0 && !v.init })
	if !ok {
		return false
	}
	r := len(v.shape)
	axis := 1
	if v.batch == -1 {
		axis = rapid.IntRange(0, r).Draw(rt, "flatAxis")
	}
	sp := int64(axis)
	if rapid.Bool().Draw(rt, "flatNeg") && axis < r {
		sp = int64(axis - r)
	}
	var attrs []*onnx.AttributeProto
	if !(axis == 1 && rapid.Bool().Draw(rt, "flatDefault")) {
		attrs = append(attrs, attrI("axis", sp))
	}
	gg.emit("Flatten", []string{v.name}, []gv{gg.out([]int{prod(v.shape[:axis]), prod(v.shape[axis:])}, v.dt, v.batch)}, attrs...)
	return true
}

func tReshape(gg *ggraph, rt *rapid.T) bool {
	v, ok := gg.pick(rt, "reshapeIn", func(v gv) bool { return len(v.shape) >= 1 && v.batch <= 0 && !v.init })
	if !ok {
		return false
	}
	var tgt []int
	var req []int64
	if v.batch == 0 {
		rest := prod(v.shape[1:])
		f := factorise(rt, rest, rapid.IntRange(1, 3).Draw(rt, "reshapeK"))
		tgt = append([]int{v.shape[0]}, f...)
		req = append([]int64{0}, i64s(f)...)
		if rapid.Bool().Draw(rt, "reshapeM1") {
			req[0] = -1
		} else if rapid.Bool().Draw(rt, "reshapeM1b") {
			req[1+rapid.IntRange(0, len(f)-1).Draw(rt, "m1at")] = -1
		}
	} else {
		tgt = factorise(rt, prod(v.shape), rapid.IntRange(1, 4).Draw(rt, "reshapeK"))
		req = i64s(tgt)
		if rapid.Bool().Draw(rt, "reshapeM1") {
			req[rapid.IntRange(0, len(req)-1).Draw(rt, "m1at")] = -1
		}
	}
	s := gg.addInit(mkT([]int{len(req)}, req))
	gg.emit("Reshape", []string{v.name, s.name}, []gv{gg.out(tgt, v.dt, v.batch)})
	return true
}

func tTranspose(gg *ggraph, rt *rapid.T) bool {
	v, ok := gg.pick(rt, "transIn", func(v gv) bool { return len(v.shape) >= 2 && !v.init })
	if !ok {
		return false
	}
	perm := rapid.Permutation(seq(len(v.shape))).Draw(rt, "perm")
	out := make([]int, len(perm))
	nb := -1
	for i, p := range perm {
		out[i] = v.shape[p]
		if p == v.batch {
			nb = i
		}
	}
	gg.emit("Transpose", []string{v.name}, []gv{gg.out(out, v.dt, nb)}, attrInts("perm", i64s(perm)...))
	return true
}

func tUnsqueezeSqueeze(gg *ggraph, rt *rapid.T) bool {
	v, ok := gg.pick(rt, "usqIn", func(v gv) bool { return len(v.shape) >= 1 && len(v.shape) <= 3 && !v.init })
	if !ok {
		return false
	}
	r := len(v.shape)
	var ones []int
	for i, d := range v.shape {
		if d == 1 && i != v.batch {
			ones = append(ones, i)
		}
	}
	if len(ones) > 0 && rapid.Bool().Draw(rt, "squeeze") {
		a := rapid.SampledFrom(ones).Draw(rt, "sqAxis")
		out := append(cloneInts(v.shape[:a]), v.shape[a+1:]...)
		nb := v.batch
		if nb > a {
			nb--
		}
		ax := gg.addInit(int64T(spell(rt, a, r)))
		gg.emit("Squeeze", []string{v.name, ax.name}, []gv{gg.out(out, v.dt, nb)})
		return true
	}
	a := rapid.IntRange(0, r).Draw(rt, "usqAxis")
	out := append(append(cloneInts(v.shape[:a]), 1), v.shape[a:]...)
	nb := v.batch
	if nb >= a {
		nb++
	}
	ax := gg.addInit(int64T(spell(rt, a, r+1)))
	gg.emit("Unsqueeze", []string{v.name, ax.name}, []gv{gg.out(out, v.dt, nb)})
	return true
}

func tConcat(gg *ggraph, rt *rapid.T) bool {
	a, ok := gg.pick(rt, "catA", func(v gv) bool { return len(v.shape) >= 1 && !v.init && (len(v.shape) > 1 || v.batch == -1) })
	if !ok {
		return false
	}
	r := len(a.shape)
	var axes []int
	for i := 0; i < r; i++ {
		if i != a.batch {
			axes = append(axes, i)
		}
	}
	axis := rapid.SampledFrom(axes).Draw(rt, "catAxis")
	ins := []string{a.name}
	out := cloneInts(a.shape)
	k := rapid.IntRange(1, 3).Draw(rt, "catN")
	wideOdds := 39
	if gg.opts.weightOps {
		wideOdds = 7 // concurrency workloads: per-width lazily built tables are only racy on first use
	}
	if rapid.IntRange(0, wideOdds).Draw(rt, "wideConcat") == 0 {
		k = rapid.IntRange(17, 90).Draw(rt, "catWide") // far more inputs than usual
		gg.feat("wide-concat")
	}
	for i := 1; i < k; i++ {
		b, ok := gg.pick(rt, "catB", func(v gv) bool {
			if v.dt != a.dt || v.batch != a.batch || len(v.shape) != r || v.init {
				return false
			}
			for j := range v.shape {
				if j != axis && v.shape[j] != a.shape[j] {
					return false
				}
			}
			return true
		})
		if !ok {
			break
		}
		ins = append(ins, b.name)
		out[axis] += b.shape[axis]
	}
	if len(ins) == 1 {
		gg.feat("single-input-concat")
	}
	gg.emit("Concat", ins, []gv{gg.out(out, a.dt, a.batch)}, attrI("axis", spell(rt, axis, r)))
	return true
}

func nonBatchAxes(v gv) []int {
	var axes []int
	for i := range v.shape {
		if i != v.batch {
			axes = append(axes, i)
		}
	}
	return axes
}

func tSoftmax(gg *ggraph, rt *rapid.T) bool {
	v, ok := gg.pick(rt, "smIn", func(v gv) bool { return isF32(v) && len(nonBatchAxes(v)) > 0 && !v.init })
	if !ok {
		return false
	}
	axis := rapid.SampledFrom(nonBatchAxes(v)).Draw(rt, "smAxis")
	op := rapid.SampledFrom([]string{"Softmax", "Softmax", "LogSoftmax"}).Draw(rt, "smOp")
	var attrs []*onnx.AttributeProto
	if !(axis == len(v.shape)-1 && rapid.Bool().Draw(rt, "smDefault")) {
		attrs = append(attrs, attrI("axis", spell(rt, axis, len(v.shape))))
	}
	gg.emit(op, []string{v.name}, []gv{gg.out(cloneInts(v.shape), v.dt, v.batch)}, attrs...)
	gg.mixing = true
	return true
}

func tReduce(gg *ggraph, rt *rapid.T) bool {
	v, ok := gg.pick(rt, "redIn", func(v gv) bool {
		return (isF32(v) || v.dt == tensor.Int64) && len(nonBatchAxes(v)) > 0 && len(v.shape) <= 3 && !v.init && len(v.shape) > 1
	})
	if !ok {
		return false
	}
	r := len(v.shape)
	cand := nonBatchAxes(v)
	axis := rapid.SampledFrom(cand).Draw(rt, "redAxis")
	keep := rapid.Bool().Draw(rt, "redKeep")
	if rapid.IntRange(0, 2).Draw(rt, "argmax") == 0 && v.dt == tensor.Float32 && !gg.opts.continuousOnly && !v.noisy {
		// ArgMax keepdims: keep the reduced axis as 1 or drop it
		out := reducedShape(v.shape, []int{axis}, keep)
		nb := v.batch
		if !keep && nb > axis {
			nb--
		}
		kd := int64(0)
		if keep {
			kd = 1
		}
		gg.emit("ArgMax", []string{v.name}, []gv{gg.out(out, tensor.Int64, nb)}, attrI("axis", spell(rt, axis, r)), attrI("keepdims", kd))
		gg.mixing = true
		return true
	}
	op := rapid.SampledFrom([]string{"ReduceMax", "ReduceMin"}).Draw(rt, "redOp")
	out := reducedShape(v.shape, []int{axis}, keep)
	nb := v.batch
	if !keep && nb > axis {
		nb--
	}
	kd := int64(0)
	if keep {
		kd = 1
	}
	gg.emit(op, []string{v.name}, []gv{gg.out(out, v.dt, nb)}, attrInts("axes", spell(rt, axis, r)), attrI("keepdims", kd))
	gg.mixing = true
	return true
}

func tGather(gg *ggraph, rt *rapid.T) bool {
	v, ok := gg.pick(rt, "gatherIn", func(v gv) bool { return len(nonBatchAxes(v)) > 0 && len(v.shape) <= 3 && !v.init })
	if !ok {
		return false
	}
	r := len(v.shape)
	axis := rapid.SampledFrom(nonBatchAxes(v)).Draw(rt, "gatherAxis")
	d := v.shape[axis]
	ishape := genShape(0, 2, 2, 4).Draw(rt, "gatherIshape")
	idx := make([]int64, prod(ishape))
	for i := range idx {
		idx[i] = int64(rapid.IntRange(-d, d-1).Draw(rt, "gatherIdx"))
	}
	it := gg.addInit(mkT(ishape, idx))
	out := append(append(cloneInts(v.shape[:axis]), ishape...), v.shape[axis+1:]...)
	nb := v.batch
	if nb > axis {
		nb += len(ishape) - 1
	}
	gg.emit("Gather", []string{v.name, it.name}, []gv{gg.out(out, v.dt, nb)}, attrI("axis", spell(rt, axis, r)))
	gg.weighted = true
	return true
}

func tShapeCastConst(gg *ggraph, rt *rapid.T) bool {
	switch rapid.IntRange(0, 3).Draw(rt, "scc") {
	case 0:
		if gg.opts.perSample {
			return false // Shape depends on the batch size
		}
		v, ok := gg.pick(rt, "shapeIn", func(v gv) bool { return len(v.shape) >= 1 })
		if !ok {
			return false
		}
		gg.emit("Shape", []string{v.name}, []gv{gg.out([]int{len(v.shape)}, tensor.Int64, -1)})
	case 1:
		v, ok := gg.pick(rt, "castIn", func(v gv) bool { return (isF32(v) || v.dt == tensor.Int64) && !v.init })
		if !ok {
			return false
		}
		to := rapid.SampledFrom([]tensor.Dtype{tensor.Float64, tensor.Int64, tensor.Int32, tensor.Float32}).Draw(rt, "castTo")
		if gg.opts.continuousOnly || v.noisy {
			to = tensor.Float64
		}
		gg.emit("Cast", []string{v.name}, []gv{gg.out(cloneInts(v.shape), to, v.batch)}, attrI("to", int64(onnxTypeOf[to])))
	case 2:
		shape := genShape(0, 2, 3, 9).Draw(rt, "constShape")
		t := f32Init(rt, shape, 2, "const")
		gg.emit("Constant", nil, []gv{gg.out(shape, tensor.Float32, -1)}, attrT("value", encodeTensor("c", shape, elems(t).Interface(), rapid.Bool().Draw(rt, "constTyped"))))
		gg.feat("constant")
	default:
		shape := genShape(1, 3, 3, 12).Draw(rt, "cosShape")
		s := gg.addInit(mkT([]int{len(shape)}, i64s(shape)))
		val := float32(rapid.IntRange(-3, 3).Draw(rt, "cosVal"))
		gg.emit("ConstantOfShape", []string{s.name}, []gv{gg.out(shape, tensor.Float32, -1)}, attrT("value", encodeTensor("v", []int{1}, []float32{val}, true)))
	}
	return true
}

func tConv(gg *ggraph, rt *rapid.T) bool {
	x, ok := gg.pick(rt, "convX", func(v gv) bool {
		return isF32(v) && (len(v.shape) == 4 || len(v.shape) == 3) && v.batch == 0 && !v.init
	})
	if !ok {
		return false
	}
	sp := len(x.shape) - 2
	c := x.shape[1]
	m := rapid.IntRange(1, 3).Draw(rt, "convM")
	ks, strides, pads, dils := make([]int, sp), make([]int, sp), make([]int, 2*sp), make([]int, sp)
	out := []int{x.shape[0], m}
	for a := 0; a < sp; a++ {
		in := x.shape[2+a]
		ks[a] = rapid.IntRange(1, min(3, in)).Draw(rt, "convK")
		if ks[a] == 1 && c > 1 && in >= 2 {
			ks[a] = 2 // a kernel extent of 1 with C > 1 is refused by the library
		}
		strides[a] = rapid.IntRange(1, 2).Draw(rt, "convS")
		pads[a], pads[a+sp] = rapid.IntRange(0, 1).Draw(rt, "convP0"), rapid.IntRange(0, 1).Draw(rt, "convP1")
		dils[a] = 1
		if ks[a] >= 2 && (ks[a]-1)*2+1 <= in+pads[a]+pads[a+sp] && rapid.IntRange(0, 2).Draw(rt, "convDil") == 0 {
			dils[a] = 2
		}
		o := (in+pads[a]+pads[a+sp]-((ks[a]-1)*dils[a]+1))/strides[a] + 1
		if o < 1 {
			return false
		}
		out = append(out, o)
	}
	w := gg.addInit(f32Init(rt, append([]int{m, c}, ks...), 1, "convW"))
	ins := []string{x.name, w.name}
	if rapid.IntRange(0, 3).Draw(rt, "convBias") != 0 || gg.opts.aliasRoutes {
		b := gg.addInit(f32Init(rt, []int{m}, 1, "convB"))
		ins = append(ins, b.name)
		gg.feat("conv-bias-initializer")
	}
	gg.emit("Conv", ins, []gv{gg.out(out, x.dt, 0)}, attrInts("strides", i64s(strides)...), attrInts("pads", i64s(pads)...), attrInts("kernel_shape", i64s(ks)...), attrInts("dilations", i64s(dils)...))
	gg.mixing, gg.weighted = true, true
	return true
}

func tRecurrent(gg *ggraph, rt *rapid.T) bool {
	// needs a float32 value (S,B,I) with the batch on axis 1, or (B,S,I) with batch on axis 0 which
	// is first transposed (as in the repository's sample models)
	x, ok := gg.pick(rt, "rnnX", func(v gv) bool {
		return isF32(v) && len(v.shape) == 3 && !v.init && (v.batch == 1 || v.batch == 0)
	})
	if !ok {
		return false
	}
	if x.batch == 0 {
		t := gg.out([]int{x.shape[1], x.shape[0], x.shape[2]}, x.dt, 1)
		gg.emit("Transpose", []string{x.name}, []gv{t}, attrInts("perm", 1, 0, 2))
		x = t
	}
	S, B, I := x.shape[0], x.shape[1], x.shape[2]
	if I == 1 {
		gg.feat("recurrent-input-size-1")
	}
	H := rapid.IntRange(1, 4).Draw(rt, "rnnH")
	kind := rapid.SampledFrom([]string{"RNN", "GRU", "LSTM"}).Draw(rt, "rnnKind")
	G := map[string]int{"RNN": 1, "GRU": 3, "LSTM": 4}[kind]
	half := func(t tensor.Tensor) tensor.Tensor {
		v := f64s(t)
		for i := range v {
			v[i] /= 2
		}
		return toDtype(tensor.Float32, t.Shape(), v)
	}
	W := gg.addInit(half(f32Init(rt, []int{1, G * H, I}, 1, "rnnW")))
	R := gg.addInit(half(f32Init(rt, []int{1, G * H, H}, 1, "rnnR")))
	ins := []string{x.name, W.name, R.name}
	opt := func(present bool, mk func() string) {
		if present {
			ins = append(ins, mk())
		} else {
			ins = append(ins, "")
		}
	}
	opt(rapid.Bool().Draw(rt, "rnnB"), func() string { return gg.addInit(half(f32Init(rt, []int{1, 2 * G * H}, 1, "rnnBias"))).name })
	ins = append(ins, "") // sequence_lens
	h0 := rapid.Bool().Draw(rt, "rnnH0") || gg.opts.aliasRoutes
	opt(h0, func() string {
		if gg.opts.perSample {
			// the state depends on the batch size: it must come from the caller
			in := gv{name: gg.fresh("h0_"), shape: []int{1, B, H}, dt: tensor.Float32, batch: 1}
			gg.inputs = append(gg.inputs, in)
			return in.name
		}
		gg.feat("initial-state-initializer")
		return gg.addInit(f32Init(rt, []int{1, B, H}, 1, "rnnH0v")).name
	})
	if kind == "LSTM" {
		opt(rapid.Bool().Draw(rt, "rnnC0"), func() string {
			if gg.opts.perSample {
				in := gv{name: gg.fresh("c0_"), shape: []int{1, B, H}, dt: tensor.Float32, batch: 1}
				gg.inputs = append(gg.inputs, in)
				return in.name
			}
			gg.feat("initial-state-initializer")
			return gg.addInit(f32Init(rt, []int{1, B, H}, 1, "rnnC0v")).name
		})
		opt(rapid.Bool().Draw(rt, "rnnP"), func() string { return gg.addInit(half(f32Init(rt, []int{1, 3 * H}, 1, "rnnPv"))).name })
	}
	for len(ins) > 3 && ins[len(ins)-1] == "" {
		ins = ins[:len(ins)-1]
	}
	for _, n := range ins[3:] {
		if n == "" {
			gg.feat("skipped-optional-input")
			break
		}
	}
	var attrs = []*onnx.AttributeProto{attrI("hidden_size", int64(H))}
	if kind == "GRU" && rapid.Bool().Draw(rt, "rnnLbr") {
		attrs = append(attrs, attrI("linear_before_reset", 1))
	}
	if rapid.IntRange(0, 2).Draw(rt, "rnnActs") == 0 {
		n := map[string]int{"RNN": 1, "GRU": 2, "LSTM": 3}[kind]
		var acts []string
		for i := 0; i < n; i++ {
			acts = append(acts, rapid.SampledFrom([]string{"tanh", "sigmoid", "relu"}).Draw(rt, "rnnAct"))
		}
		if acts[0] == "relu" && kind != "RNN" {
			acts[0] = "sigmoid" // a relu gate lets the state diverge
		}
		attrs = append(attrs, attrStrs("activations", acts...))
	}
	outs := []gv{gg.out([]int{S, 1, B, H}, tensor.Float32, 2), gg.out([]int{1, B, H}, tensor.Float32, 1)}
	if kind == "LSTM" {
		outs = append(outs, gg.out([]int{1, B, H}, tensor.Float32, 1))
	}
	// arbitrary output names: the documented names permuted over the positions (once per graph)
	if !gg.usedDoc && rapid.Bool().Draw(rt, "docNamesPermuted") {
		doc := []string{"Y_h", "Y_c", "Y"}
		if len(outs) == 2 {
			doc = []string{"Y_h", "Y"}
		}
		for i := range outs {
			outs[i].name = doc[i]
		}
		gg.usedDoc = true
		gg.feat("multi-output-non-doc-names")
	} else {
		gg.feat("multi-output-non-doc-names") // v<k> names are not the documented ones either
	}
	// partly omitted outputs
	switch rapid.IntRange(0, 5).Draw(rt, "rnnOmit") {
	case 0:
		if !gg.opts.perSample {
			outs = outs[:len(outs)-1]
			gg.feat("omitted-trailing-output")
			if kind != "LSTM" {
				gg.shortOut = true // RNN and GRU always return two results
			}
		}
	case 1:
		outs[0].name = "" // skipped leading output
		gg.feat("skipped-output-name")
	case 2:
		outs[len(outs)-1].name = "" // trailing output listed, but left unnamed
		gg.feat("skipped-output-name")
	}
	gg.emit(kind, ins, outs, attrs...)
	gg.mixing, gg.weighted = true, true
	return true
}

func tExpandPRelu(gg *ggraph, rt *rapid.T) bool {
	if gg.opts.perSample {
		return false // the target shape would depend on the batch size
	}
	v, ok := gg.pick(rt, "epIn", func(v gv) bool { return isF32(v) && len(v.shape) >= 1 && len(v.shape) <= 3 && !v.init })
	if !ok {
		return false
	}
	if rapid.Bool().Draw(rt, "expandSame") || gg.opts.aliasRoutes {
		// Expand to the value's own shape: returns its input object unchanged (an alias route)
		s := gg.addInit(mkT([]int{len(v.shape)}, i64s(v.shape)))
		gg.emit("Expand", []string{v.name, s.name}, []gv{gg.out(cloneInts(v.shape), v.dt, v.batch)})
		gg.feat("expand-same-shape")
		return true
	}
	tgt := append([]int{2}, v.shape...)
	s := gg.addInit(mkT([]int{len(tgt)}, i64s(tgt)))
	nb := v.batch
	if nb >= 0 {
		nb++
	}
	gg.emit("Expand", []string{v.name, s.name}, []gv{gg.out(tgt, v.dt, nb)})
	return true
}

func tPRelu(gg *ggraph, rt *rapid.T) bool {
	v, ok := gg.pick(rt, "preluIn", func(v gv) bool { return isF32(v) && !v.init })
	if !ok {
		return false
	}
	s := gg.addInit(f32Init(rt, weightShapeFor(rt, v), 1, "slope"))
	gg.emit("PRelu", []string{v.name, s.name}, []gv{gg.out(cloneInts(v.shape), v.dt, v.batch)})
	gg.weighted = true
	return true
}

func tScalerLinReg(gg *ggraph, rt *rapid.T) bool {
	if !gg.opts.perSample && rapid.IntRange(0, 3).Draw(rt, "scalerRank1") == 0 {
		// Scaler on a rank-1 input of F features (the broadcast of offset/scale is then the identity)
		if v, ok := gg.pick(rt, "mlIn1", func(v gv) bool { return isF32(v) && len(v.shape) == 1 && !v.init }); ok {
			f := v.shape[0]
			gg.emit("Scaler", []string{v.name}, []gv{gg.out(cloneInts(v.shape), v.dt, v.batch)}, attrFs("offset", smallF32s(rt, f, 1, "off")...), attrFs("scale", smallF32s(rt, f, 2, "sc")...))
			gg.weighted = true
			gg.feat("scaler-rank1")
			return true
		}
	}
	v, ok := gg.pick(rt, "mlIn", func(v gv) bool { return isF32(v) && len(v.shape) == 2 && v.batch <= 0 && !v.init })
	if !ok {
		return false
	}
	f := v.shape[1]
	if rapid.Bool().Draw(rt, "scaler") {
		gg.emit("Scaler", []string{v.name}, []gv{gg.out(cloneInts(v.shape), v.dt, v.batch)}, attrFs("offset", smallF32s(rt, f, 1, "off")...), attrFs("scale", smallF32s(rt, f, 2, "sc")...))
		gg.weighted = true
		return true
	}
	tg := rapid.IntRange(1, 3).Draw(rt, "lrTargets")
	gg.emit("LinearRegressor", []string{v.name}, []gv{gg.out([]int{v.shape[0], tg}, v.dt, v.batch)},
		attrFs("coefficients", smallF32s(rt, tg*f, 1, "coef")...), attrFs("intercepts", smallF32s(rt, tg, 1, "icpt")...), attrI("targets", int64(tg)))
	gg.mixing, gg.weighted = true, true
	return true
}

// tOnInitializers: a node fed only by initializers (its value is "constant" unless one of the
// initializers is also a graph input that the caller overrides).
func tOnInitializers(gg *ggraph, rt *rapid.T) bool {
	var f32 []string
	for _, tp := range gg.inits {
		if gg.initVals[tp.Name].Dtype() == tensor.Float32 && len(gg.initVals[tp.Name].Shape()) >= 1 {
			f32 = append(f32, tp.Name)
		}
	}
	if len(f32) == 0 {
		return false
	}
	name := rapid.SampledFrom(f32).Draw(rt, "onInit")
	w := gg.initVals[name]
	gg.feat("node-fed-only-by-initializers")
	if rapid.Bool().Draw(rt, "onInitBinary") {
		other := gg.addInit(f32Init(rt, cloneInts(w.Shape()), 1, "onInitOther"))
		gg.emit(rapid.SampledFrom([]string{"Add", "Mul", "Sub"}).Draw(rt, "onInitOp2"), []string{name, other.name}, []gv{gg.out(cloneInts(w.Shape()), tensor.Float32, -1)})
		return true
	}
	gg.emit(rapid.SampledFrom([]string{"Abs", "Tanh", "Relu", "Atan"}).Draw(rt, "onInitOp"), []string{name}, []gv{gg.out(cloneInts(w.Shape()), tensor.Float32, -1)})
	return true
}

var gTemplates = []gtemplate{tUnary, tBinaryInit, tBinaryValues, tCompareLogic, tGemm, tMatMul, tFlatten, tReshape, tTranspose,
	tUnsqueezeSqueeze, tConcat, tSoftmax, tReduce, tGather, tShapeCastConst, tConv, tRecurrent, tExpandPRelu, tPRelu, tScalerLinReg, tOnInitializers}

// gTemplateWeights: indices into gTemplates; the heavier operator families are drawn more often.
var gTemplateWeights = []int{0, 1, 2, 3, 4, 4, 5, 5, 6, 7, 8, 9, 10, 11, 12, 13, 14, 15, 15, 15, 16, 16, 16, 16, 17, 18, 19, 20}

// genGraph builds a random graph.
func genGraph(rt *rapid.T, opts ggOpts) *ggraph {
	gg := &ggraph{opts: opts, initVals: map[string]tensor.Tensor{}, shadowed: map[string]bool{}, feats: map[string]int{},
		attrSeen: map[string]map[string]bool{}, usedAsIn: map[string]int{}}
	gg.batchN = rapid.IntRange(1, 3).Draw(rt, "batchN")
	nIn := rapid.SampledFrom([]int{1, 1, 2, 2, 3}).Draw(rt, "nGraphInputs")
	for i := 0; i < nIn; i++ {
		var shape []int
		kinds := []string{"NF", "NF", "NCHW", "NCL", "NSI", "NSI"}
		if opts.aliasRoutes {
			kinds = []string{"NF", "NCHW", "NCHW", "NSI", "NSI", "NCL"}
		}
		if !opts.perSample {
			kinds = append(kinds, "F1")
			if rapid.IntRange(0, 2).Draw(rt, "scalarInput") == 0 {
				kinds = append(kinds, "F0")
			}
		}
		switch rapid.SampledFrom(kinds).Draw(rt, "inputKind") {
		case "NF":
			shape = []int{gg.batchN, min(genExtent(5).Draw(rt, "F"), 70)}
			if !opts.perSample && rapid.IntRange(0, 39).Draw(rt, "hugeInput") == 0 {
				// more than 4 096 elements (thresholds of in-place / parallel fast paths)
				gg.batchN = rapid.SampledFrom([]int{64, 65, 70}).Draw(rt, "hugeN")
				shape = []int{gg.batchN, rapid.SampledFrom([]int{65, 70, 100}).Draw(rt, "hugeF")}
			}
		case "F0":
			shape = []int{} // a rank-0 input: it flows through the elementwise operators, PRelu and Cast
		case "F1":
			shape = []int{rapid.IntRange(1, 6).Draw(rt, "F1")} // a plain feature vector (its only axis is declared symbolic)
		case "NCHW":
			shape = []int{gg.batchN, rapid.IntRange(1, 2).Draw(rt, "C"), rapid.IntRange(2, 5).Draw(rt, "H"), rapid.IntRange(2, 5).Draw(rt, "W")}
		case "NCL":
			shape = []int{gg.batchN, rapid.IntRange(1, 3).Draw(rt, "C"), rapid.IntRange(2, 6).Draw(rt, "L")}
		default:
			shape = []int{gg.batchN, rapid.IntRange(1, 4).Draw(rt, "S"), rapid.IntRange(2, 3).Draw(rt, "I")}
		}
		in := gv{name: gg.fresh("x"), shape: shape, dt: tensor.Float32, batch: 0}
		if len(shape) == 0 {
			in.batch = -1
			gg.feat("rank-0-input")
		}
		gg.inputs = append(gg.inputs, in)
		gg.pool = append(gg.pool, in)
	}
	n := rapid.IntRange(1, opts.maxNodes).Draw(rt, "nNodes")
	for len(gg.nodes) < n {
		k := rapid.SampledFrom(gTemplateWeights).Draw(rt, "template")
		if opts.weightOps && rapid.IntRange(0, 2).Draw(rt, "preferWeights") != 0 {
			w := []gtemplate{tBinaryInit, tGemm, tGemmTransA, tGemmTransA, tMatMul, tGather, tConv, tRecurrent, tPRelu, tScalerLinReg, tShapeCastConst}
			if w[rapid.IntRange(0, len(w)-1).Draw(rt, "weightTemplate")](gg, rt) {
				continue
			}
		}
		if opts.aliasRoutes && rapid.IntRange(0, 2).Draw(rt, "preferAlias") == 0 {
			k = rapid.SampledFrom([]int{10, 12, 15, 16, 17}).Draw(rt, "aliasTemplate") // Concat, Reduce/ArgMax, Conv, recurrent, Expand
		}
		applied := false
		for j := 0; j < len(gTemplates) && !applied; j++ {
			applied = gTemplates[(k+j)%len(gTemplates)](gg, rt)
		}
		if !applied {
			break
		}
	}
	// an initializer that is also listed as a graph input (the caller may override it)
	if len(gg.inits) > 0 && !opts.perSample && rapid.IntRange(0, 2).Draw(rt, "shadow") == 0 {
		tp := rapid.SampledFrom(gg.inits).Draw(rt, "shadowWhich")
		if gg.feats["node-fed-only-by-initializers"] > 0 {
			// prefer the input of a node that reads initializers only
			for _, n := range gg.nodes {
				if len(n.Input) > 0 && gg.initVals[n.Input[0]] != nil && gg.initVals[n.Input[0]].Dtype() == tensor.Float32 {
					for _, cand := range gg.inits {
						if cand.Name == n.Input[0] {
							tp = cand
						}
					}
				}
			}
		}
		if gg.initVals[tp.Name].Dtype() == tensor.Float32 {
			gg.shadowed[tp.Name] = true
			gg.feat("initializer-as-input")
		}
	}
	return gg
}

// model marshals the graph. Nodes are emitted in a drawn topological order.
// declareLoosely occasionally strips a graph input's declaration down to what exporters also
// produce: no shape, or no type information at all. Such an input is accepted without validation.
func declareLoosely(rt *rapid.T, vi *onnx.ValueInfoProto) *onnx.ValueInfoProto {
	if rt == nil {
		return vi
	}
	switch rapid.IntRange(0, 11).Draw(rt, "declaration") {
	case 0:
		return &onnx.ValueInfoProto{Name: vi.Name}
	case 1:
		et := vi.GetType().GetTensorType().GetElemType()
		return &onnx.ValueInfoProto{Name: vi.Name, Type: &onnx.TypeProto{Value: &onnx.TypeProto_TensorType{TensorType: &onnx.TypeProto_Tensor{ElemType: et}}}}
	}
	return vi
}

func (gg *ggraph) model(rt *rapid.T) *onnx.ModelProto {
	g := &onnx.GraphProto{Initializer: gg.inits}
	for _, in := range gg.inputs {
		dims := make([]any, len(in.shape))
		for i, d := range in.shape {
			dims[i] = d
			if i == in.batch {
				dims[i] = "N"
			}
		}
		g.Input = append(g.Input, declareLoosely(rt, valueInfo(in.name, onnxTypeOf[in.dt], dims...)))
	}
	var sh []string
	for name := range gg.shadowed {
		sh = append(sh, name)
	}
	sort.Strings(sh)
	for _, name := range sh {
		g.Input = append(g.Input, declareLoosely(rt, valueInfoFor(name, gg.initVals[name])))
	}
	// random topological order
	produced := map[string]bool{}
	for _, in := range gg.inputs {
		produced[in.name] = true
	}
	for name := range gg.initVals {
		produced[name] = true
	}
	remaining := append([]*onnx.NodeProto{}, gg.nodes...)
	for len(remaining) > 0 {
		var ready []int
		for i, n := range remaining {
			ok := true
			for _, in := range n.Input {
				if in != "" && !produced[in] {
					ok = false
				}
			}
			if ok {
				ready = append(ready, i)
			}
		}
		i := ready[0]
		if rt != nil && len(ready) > 1 {
			i = rapid.SampledFrom(ready).Draw(rt, "topo")
		}
		n := remaining[i]
		g.Node = append(g.Node, n)
		for _, o := range n.Output {
			produced[o] = true
		}
		remaining = append(remaining[:i], remaining[i+1:]...)
	}
	// outputs: every produced value (or only the sinks)
	for _, v := range gg.pool {
		if v.init {
			continue
		}
		isInput := false
		for _, in := range gg.inputs {
			if in.name == v.name {
				isInput = true
			}
		}
		if isInput {
			continue
		}
		if gg.opts.allOutputs || gg.usedAsIn[v.name] == 0 {
			g.Output = append(g.Output, valueInfoNoShape(v.name))
		}
	}
	// a graph may also declare one of its inputs or initializers as an output (pass-through)
	if rt != nil && gg.opts.allOutputs && !gg.opts.perSample && rapid.IntRange(0, 3).Draw(rt, "passThroughOutput") == 0 {
		if rapid.Bool().Draw(rt, "passInput") || len(gg.inits) == 0 {
			g.Output = append(g.Output, valueInfoNoShape(gg.inputs[0].name))
		} else {
			g.Output = append(g.Output, valueInfoNoShape(rapid.SampledFrom(gg.inits).Draw(rt, "passInit").Name))
		}
		gg.feat("pass-through-output")
	}
	return mkModel(g, 13)
}

// feed draws caller inputs for batch size n (values in [-2,2] with 1/16 resolution).
func (gg *ggraph) feed(rt *rapid.T, n int) gonnx.Tensors {
	out := gonnx.Tensors{}
	for _, in := range gg.inputs {
		s := cloneInts(in.shape)
		if len(s) > 1 {
			s[in.batch] = n
		}
		out[in.name] = mkT(s, smallF32s(rt, prod(s), 2, "feed"))
	}
	return out
}

func (gg *ggraph) outputValues() []gv {
	var out []gv
	for _, v := range gg.pool {
		if !v.init {
			out = append(out, v)
		}
	}
	return out
}

func (gg *ggraph) String() string {
	var sb strings.Builder
	for _, in := range gg.inputs {
		fmt.Fprintf(&sb, "%s%v ", in.name, in.shape)
	}
	sb.WriteString("| ")
	for _, n := range gg.nodes {
		fmt.Fprintf(&sb, "%s(%s)->(%s); ", descNode(n), strings.Join(n.Input, ","), strings.Join(n.Output, ","))
	}
	return sb.String()
}

func (gg *ggraph) featureList() []string {
	var fs []string
	for f := range gg.feats {
		if !strings.HasPrefix(f, "op-") {
			fs = append(fs, f)
		}
	}
	sort.Strings(fs)
	return fs
}
