package harness

// C12 — Weights decode to their declared shape, type and exact values, or are refused.

import (
	"fmt"
	"math"
	"math/big"
	"reflect"
	"testing"

	"github.com/advancedclimatesystems/gonnx"
	"github.com/advancedclimatesystems/gonnx/onnx"
	"gorgonia.org/tensor"
	"pgregory.net/rapid"
)

var c12Dtypes = []tensor.Dtype{
	tensor.Float32, tensor.Float64, tensor.Int8, tensor.Int16, tensor.Int32, tensor.Int64,
	tensor.Uint8, tensor.Uint16, tensor.Uint32, tensor.Uint64, tensor.Bool,
}

// setTyped stores the elements in the typed repeated field ONNX prescribes for the element type.
func setTyped(tp *onnx.TensorProto, e reflect.Value) {
	n := e.Len()
	switch e.Type().Elem().Kind() {
	case reflect.Float32:
		tp.FloatData = make([]float32, n)
		for i := range tp.FloatData {
			tp.FloatData[i] = float32(e.Index(i).Float())
		}
		// keep NaN payloads: copy bit patterns
		for i := range tp.FloatData {
			tp.FloatData[i] = e.Index(i).Interface().(float32)
		}
	case reflect.Float64:
		tp.DoubleData = make([]float64, n)
		for i := range tp.DoubleData {
			tp.DoubleData[i] = e.Index(i).Interface().(float64)
		}
	case reflect.Int64:
		tp.Int64Data = make([]int64, n)
		for i := range tp.Int64Data {
			tp.Int64Data[i] = e.Index(i).Int()
		}
	case reflect.Int8, reflect.Int16, reflect.Int32:
		tp.Int32Data = make([]int32, n)
		for i := range tp.Int32Data {
			tp.Int32Data[i] = int32(e.Index(i).Int())
		}
	case reflect.Uint8, reflect.Uint16:
		tp.Int32Data = make([]int32, n)
		for i := range tp.Int32Data {
			tp.Int32Data[i] = int32(e.Index(i).Uint())
		}
	case reflect.Bool:
		tp.Int32Data = make([]int32, n)
		for i := range tp.Int32Data {
			if e.Index(i).Bool() {
				tp.Int32Data[i] = 1
			}
		}
	case reflect.Uint32, reflect.Uint64:
		tp.Uint64Data = make([]uint64, n)
		for i := range tp.Uint64Data {
			tp.Uint64Data[i] = e.Index(i).Uint()
		}
	default:
		panic("setTyped: " + e.Type().String())
	}
}

// encodeTensor is the harness's own encoder (typed repeated field or little-endian raw bytes).
func encodeTensor(name string, shape []int, backing any, typed bool) *onnx.TensorProto {
	e := reflect.ValueOf(backing)
	dt := dtypeOfSlice(e)
	tp := &onnx.TensorProto{Name: name, DataType: onnxTypeOf[dt]}
	for _, d := range shape {
		tp.Dims = append(tp.Dims, int64(d))
	}
	if typed {
		setTyped(tp, e)
	} else {
		tp.RawData = rawBytes(e)
	}
	return tp
}

func dtypeOfSlice(e reflect.Value) tensor.Dtype {
	for _, dt := range c12Dtypes {
		if dt.Type == e.Type().Elem() {
			return dt
		}
	}
	panic("dtypeOfSlice: " + e.Type().String())
}

// genBits draws n elements of dt as arbitrary bit patterns (extremes, negatives, NaN payloads, -0).
func genBits(dt tensor.Dtype, n int) *rapid.Generator[any] {
	return rapid.Custom(func(t *rapid.T) any {
		if n > 2048 {
			base := reflect.ValueOf(genBits(dt, 257).Draw(t, "base"))
			s := reflect.MakeSlice(reflect.SliceOf(dt.Type), n, n)
			for i := 0; i < n; i++ {
				s.Index(i).Set(base.Index((i*7919 + i/257) % 257))
			}
			return s.Interface()
		}
		s := reflect.MakeSlice(reflect.SliceOf(dt.Type), n, n)
		for i := 0; i < n; i++ {
			var u uint64
			switch rapid.IntRange(0, 3).Draw(t, "bk") {
			case 0:
				u = rapid.Uint64().Draw(t, "bits")
			case 1:
				u = rapid.SampledFrom([]uint64{0, 1, math.MaxUint64, 1 << 63, 1<<63 - 1, 1 << 31, 1<<31 - 1, 1 << 15, 1 << 7, 0xff, 0xffff, 0xffffffff,
					0x7fc00001, 0xffc12345, 0x7ff8000000000001, 0xfff0000000000000, 0x80000000, 0x8000000000000000, 0x7f800000}).Draw(t, "special")
			default:
				u = uint64(rapid.IntRange(-5, 5).Draw(t, "small"))
			}
			v := s.Index(i)
			switch dt {
			case tensor.Float32:
				v.Set(reflect.ValueOf(math.Float32frombits(uint32(u))))
			case tensor.Float64:
				v.Set(reflect.ValueOf(math.Float64frombits(u)))
			case tensor.Bool:
				v.SetBool(u&1 == 1)
			case tensor.Int8, tensor.Int16, tensor.Int32, tensor.Int64:
				switch dt {
				case tensor.Int8:
					v.SetInt(int64(int8(u)))
				case tensor.Int16:
					v.SetInt(int64(int16(u)))
				case tensor.Int32:
					v.SetInt(int64(int32(u)))
				default:
					v.SetInt(int64(u))
				}
			default:
				switch dt {
				case tensor.Uint8:
					v.SetUint(uint64(uint8(u)))
				case tensor.Uint16:
					v.SetUint(uint64(uint16(u)))
				case tensor.Uint32:
					v.SetUint(uint64(uint32(u)))
				default:
					v.SetUint(u)
				}
			}
		}
		return s.Interface()
	})
}

type decodeResult struct {
	t        tensor.Tensor
	err      error
	panicked bool
	panicVal any
}

func (r decodeResult) String() string {
	switch {
	case r.panicked:
		return fmt.Sprintf("PANIC: %v", r.panicVal)
	case r.err != nil:
		return "error: " + r.err.Error()
	}
	return "tensor " + descT(r.t)
}

func decodeProto(tp *onnx.TensorProto) (res decodeResult) {
	defer func() {
		if r := recover(); r != nil {
			res.panicked, res.panicVal = true, r
		}
	}()
	res.t, res.err = onnx.TensorFromProto(tp)
	if res.err == nil && res.t != nil {
		// force materialisation problems (nil backing etc.) to show up here, under recover
		_ = descT(res.t)
	}
	return
}

// decodeThroughModel loads a graph whose only content is the initializer, declared as output.
func decodeThroughModel(tp *onnx.TensorProto) (res decodeResult) {
	g := &onnx.GraphProto{Initializer: []*onnx.TensorProto{tp}, Output: []*onnx.ValueInfoProto{valueInfoNoShape(tp.Name)}}
	lr := loadBytes(marshalModel(mkModel(g, 13)))
	if lr.panicked {
		return decodeResult{panicked: true, panicVal: lr.panicVal}
	}
	if lr.err != nil {
		return decodeResult{err: lr.err}
	}
	rr := runModel(lr.m, gonnx.Tensors{})
	if rr.panicked {
		return decodeResult{panicked: true, panicVal: rr.panicVal}
	}
	if rr.err != nil {
		return decodeResult{err: rr.err}
	}
	func() {
		defer func() {
			if r := recover(); r != nil {
				res.panicked, res.panicVal = true, r
			}
		}()
		res.t = rr.outs[tp.Name]
		if res.t != nil {
			_ = descT(res.t)
		}
	}()
	return
}

type c12Case struct {
	tp      *onnx.TensorProto
	shape   []int
	backing any // expected values (valid cases)
	valid   bool
	kind    string
	typed   bool
	either  bool // loading and refusing are both acceptable (only a panic is a violation)
}

// genHostileDims draws 1..4 extents from a pool of boundary values and returns them with the
// element count a wrap-around multiplication would arrive at when that is small (else 0..2).
func genHostileDims(rt *rapid.T) ([]int64, int) {
	pool := []int64{0, 0, 1, 2, 3, 4, -1, -2, 1 << 31, 1 << 32, 1 << 62, math.MaxInt64, math.MinInt64, 6148914691236517206, 1<<32 + 1, 3074457345618258603}
	n := rapid.IntRange(1, 4).Draw(rt, "nHostileDims")
	dims := make([]int64, n)
	wrapped := uint64(1)
	for i := range dims {
		dims[i] = rapid.SampledFrom(pool).Draw(rt, "hostileDim")
		wrapped *= uint64(dims[i])
	}
	if wrapped <= 8 && rapid.IntRange(0, 4).Draw(rt, "matchWrapped") > 0 {
		return dims, int(wrapped)
	}
	return dims, rapid.IntRange(0, 2).Draw(rt, "hostileCount")
}

// trueElementCount: the exact product of the extents, and whether any extent is negative.
func trueElementCount(dims []int64) (*big.Int, bool) {
	p, neg := big.NewInt(1), false
	for _, d := range dims {
		if d < 0 {
			neg = true
		}
		p.Mul(p, big.NewInt(d))
	}
	return p, neg
}

func (c c12Case) String() string {
	return fmt.Sprintf("data_type=%d dims=%v typed=%v raw=%dB f=%d d=%d i32=%d i64=%d u64=%d [%s]", c.tp.DataType, c.tp.Dims, c.typed, len(c.tp.RawData),
		len(c.tp.FloatData), len(c.tp.DoubleData), len(c.tp.Int32Data), len(c.tp.Int64Data), len(c.tp.Uint64Data), c.kind)
}

var c12OtherTypes = []int32{0, 8, 10, 14, 15, 16, 17, 18, 19, 20, 21, 22, 23, 99, -1}

func c12Gen(rt *rapid.T) c12Case {
	var c c12Case
	dt := rapid.SampledFrom(c12Dtypes).Draw(rt, "dtype")
	c.shape = genShape(0, 4, 4, 1500).Draw(rt, "shape")
	n := prod(c.shape)
	c.backing = genBits(dt, n).Draw(rt, "values")
	c.typed = rapid.Bool().Draw(rt, "typed")
	c.tp = encodeTensor("w", c.shape, c.backing, c.typed)
	c.valid = true
	c.kind = "valid"
	es := elemSize(dt)
	switch rapid.IntRange(0, 21).Draw(rt, "malform") {
	case 0: // payload short by one byte / one element
		if c.typed {
			c.dropTyped(1)
			c.kind = "typed-short-by-one-element"
		} else if rapid.Bool().Draw(rt, "byteOrElem") && es > 1 {
			c.tp.RawData = c.tp.RawData[:len(c.tp.RawData)-1]
			c.kind = "raw-short-by-one-byte"
		} else {
			c.tp.RawData = c.tp.RawData[:len(c.tp.RawData)-es]
			c.kind = "raw-short-by-one-element"
		}
		c.valid = false
	case 1: // payload long
		if c.typed {
			c.growTyped()
			c.kind = "typed-long-by-one-element"
		} else if rapid.Bool().Draw(rt, "byteOrElem") && es > 1 {
			c.tp.RawData = append(c.tp.RawData, 7)
			c.kind = "raw-long-by-one-byte"
		} else {
			c.tp.RawData = append(c.tp.RawData, make([]byte, es)...)
			c.kind = "raw-long-by-one-element"
		}
		c.valid = false
	case 2: // empty payload
		c.tp.RawData, c.tp.FloatData, c.tp.DoubleData, c.tp.Int32Data, c.tp.Int64Data, c.tp.Uint64Data = nil, nil, nil, nil, nil, nil
		c.kind, c.valid = "empty-payload", false
	case 3: // negative dimension
		if len(c.tp.Dims) > 0 {
			c.tp.Dims[rapid.IntRange(0, len(c.tp.Dims)-1).Draw(rt, "negAt")] *= -1
			c.kind, c.valid = "negative-dim", false
		}
	case 8: // an even number of negative dims: the product is positive and may equal the count
		if len(c.tp.Dims) >= 2 {
			i := rapid.IntRange(0, len(c.tp.Dims)-2).Draw(rt, "negPairAt")
			c.tp.Dims[i] *= -1
			c.tp.Dims[i+1] *= -1
			c.kind, c.valid = "negative-dim", false
		}
	case 4: // dims whose product overflows / is huge
		c.tp.Dims = append([]int64{1 << 62, 4}, c.tp.Dims...)
		c.kind, c.valid = "overflowing-dims", false
	case 9, 10: // hostile dims: zeros, negatives and extents whose product wraps around 2^64, with a payload that matches the wrapped product
		dims, k := genHostileDims(rt)
		c.backing = reflect.MakeSlice(reflect.SliceOf(dt.Type), 0, 0).Interface()
		if k > 0 {
			c.backing = genBits(dt, k).Draw(rt, "hostileValues")
		}
		c.tp = encodeTensor("w", []int{k}, c.backing, c.typed)
		c.tp.Dims = dims
		exact, neg := trueElementCount(dims)
		switch {
		case neg || !exact.IsInt64() || exact.Int64() != int64(k):
			c.kind, c.valid = "overflowing-dims", false
		case k == 0:
			c.kind, c.either = "empty-tensor", true // zero elements: loading it or refusing it are both fine
		default:
			c.shape = make([]int, len(dims))
			for i, d := range dims {
				c.shape[i] = int(d)
			}
			c.kind = "valid"
		}
	case 5: // declared shape with a different element count
		c.tp.Dims = append(c.tp.Dims, 2)
		c.kind, c.valid = "count-mismatch-dims", false
	case 6, 7: // a data_type code the library cannot represent
		c.tp.DataType = rapid.SampledFrom(c12OtherTypes).Draw(rt, "otherType")
		// populate one typed field (or raw) with the right element count so that only the type is wrong
		c.tp.RawData, c.tp.FloatData, c.tp.DoubleData, c.tp.Int32Data, c.tp.Int64Data, c.tp.Uint64Data = nil, nil, nil, nil, nil, nil
		switch rapid.IntRange(0, 5).Draw(rt, "field") {
		case 0:
			c.tp.FloatData = make([]float32, n)
		case 1:
			c.tp.Int32Data = make([]int32, n)
		case 2:
			c.tp.Int64Data = make([]int64, n)
		case 3:
			c.tp.DoubleData = make([]float64, n)
		case 4:
			c.tp.Uint64Data = make([]uint64, n)
		default:
			c.tp.RawData = make([]byte, 2*n)
		}
		c.kind, c.valid = fmt.Sprintf("unsupported-data_type-%d", c.tp.DataType), false
	}
	return c
}

func (c *c12Case) dropTyped(k int) {
	tp := c.tp
	switch {
	case len(tp.FloatData) > 0:
		tp.FloatData = tp.FloatData[:len(tp.FloatData)-k]
	case len(tp.DoubleData) > 0:
		tp.DoubleData = tp.DoubleData[:len(tp.DoubleData)-k]
	case len(tp.Int32Data) > 0:
		tp.Int32Data = tp.Int32Data[:len(tp.Int32Data)-k]
	case len(tp.Int64Data) > 0:
		tp.Int64Data = tp.Int64Data[:len(tp.Int64Data)-k]
	case len(tp.Uint64Data) > 0:
		tp.Uint64Data = tp.Uint64Data[:len(tp.Uint64Data)-k]
	}
}

func (c *c12Case) growTyped() {
	tp := c.tp
	switch {
	case len(tp.FloatData) > 0:
		tp.FloatData = append(tp.FloatData, 1)
	case len(tp.DoubleData) > 0:
		tp.DoubleData = append(tp.DoubleData, 1)
	case len(tp.Int32Data) > 0:
		tp.Int32Data = append(tp.Int32Data, 1)
	case len(tp.Int64Data) > 0:
		tp.Int64Data = append(tp.Int64Data, 1)
	case len(tp.Uint64Data) > 0:
		tp.Uint64Data = append(tp.Uint64Data, 1)
	}
}

// c12Judge applies the oracle. For valid inputs: shape, dtype, bit-exact values. For malformed or
// unrepresentable inputs the only allowed outcome is a non-nil error.
func c12Judge(c c12Case, res decodeResult) string {
	dt := tensor.Dtype{}
	if c.backing != nil {
		dt = dtypeOfSlice(reflect.ValueOf(c.backing))
	}
	if res.panicked {
		if !c.valid && c12IsCountOrDimKind(c.kind) && kfAccept("KF-C12-malformed-payload") {
			return ""
		}
		return "decoding panics: " + fmt.Sprint(res.panicVal)
	}
	if c.either {
		return ""
	}
	if !c.valid {
		if res.err != nil {
			return ""
		}
		if c12IsCountOrDimKind(c.kind) && kfAccept("KF-C12-malformed-payload") {
			return ""
		}
		if len(c.kind) > 11 && c.kind[:11] == "unsupported" && kfAccept("KF-C12-unsupported-type-fallback") {
			return ""
		}
		return "malformed / unrepresentable tensor was loaded as " + descT(res.t)
	}
	if res.err != nil {
		return "valid tensor refused: " + res.err.Error()
	}
	if res.t == nil {
		return "nil tensor without error"
	}
	want := mkT(c.shape, c.backing)
	if !eqInts(res.t.Shape(), want.Shape()) {
		return fmt.Sprintf("shape %v, want %v", res.t.Shape(), want.Shape())
	}
	if res.t.Dtype() != dt {
		return fmt.Sprintf("dtype %v, want %v", res.t.Dtype(), dt)
	}
	if d := sameBits(res.t, want); d != "" {
		if dt == tensor.Uint64 && !c.typed && kfAccept("KF-C12-raw-uint64") {
			return ""
		}
		return "values differ: " + d
	}
	return ""
}

func c12IsCountOrDimKind(k string) bool {
	switch k {
	case "typed-short-by-one-element", "raw-short-by-one-byte", "raw-short-by-one-element", "typed-long-by-one-element",
		"raw-long-by-one-byte", "raw-long-by-one-element", "empty-payload", "negative-dim", "overflowing-dims", "count-mismatch-dims":
		return true
	}
	return false
}

func c12Prop(rt *rapid.T) {
	c := c12Gen(rt)
	res := decodeProto(c.tp)
	nontrivial := !c.valid || c.typed || !(c.tp.DataType == 1 || c.tp.DataType == 7)
	enc := "raw"
	if c.typed {
		enc = "typed"
	}
	ev.Case("C12", c.String()+fmt.Sprintf(" #%x", hash64(fmt.Sprint(c.backing))), nontrivial, "kind-"+c.kind, fmt.Sprintf("rank-%d", len(c.shape)), fmt.Sprintf("type-%d-%s", c.tp.DataType, enc))
	if v := c12Judge(c, res); v != "" {
		rt.Fatalf("C12 violated by %v: %s", c, v)
	}
	if rapid.IntRange(0, 4).Draw(rt, "modelLevel") == 0 {
		mres := decodeThroughModel(c.tp)
		ev.Class("C12", "model-level")
		if v := c12Judge(c, mres); v != "" {
			rt.Fatalf("C12 violated by %v when loaded through NewModelFromBytes + Run: %s", c, v)
		}
	}
}

// c12ManyInitializers: a graph with many initializers of which at most one is malformed must
// load iff none is malformed, and every initializer must come back with its own values.
func c12ManyInitializers(rt *rapid.T) {
	n := rapid.SampledFrom([]int{2, 5, 31, 32, 33, 40, 63, 64, 65, 80, 130}).Draw(rt, "nInitializers")
	bad := -1
	if rapid.Bool().Draw(rt, "oneMalformed") {
		bad = rapid.IntRange(0, n-1).Draw(rt, "badAt")
	}
	g := &onnx.GraphProto{}
	want := map[string]tensor.Tensor{}
	for i := 0; i < n; i++ {
		name := fmt.Sprintf("w%d", i)
		vals := []float32{float32(i), float32(-i), 0.5}
		tp := encodeTensor(name, []int{3}, vals, i%2 == 0)
		if i == bad {
			tp.Dims = []int64{4} // one value short of the declared shape
		} else {
			want[name] = mkT([]int{3}, vals)
		}
		g.Initializer = append(g.Initializer, tp)
		g.Output = append(g.Output, valueInfoNoShape(name))
	}
	ev.Case("many-initializers", fmt.Sprintf("n=%d malformed=%d", n, bad), true, fmt.Sprintf("n=%d", n), fmt.Sprintf("malformed=%v", bad >= 0))
	lr := loadBytes(marshalModel(mkModel(g, 13)))
	if lr.panicked {
		rt.Fatalf("C12 violated: loading %d initializers (malformed: %d) panics: %v", n, bad, lr.panicVal)
	}
	if bad >= 0 {
		if lr.err == nil {
			rt.Fatalf("C12 violated: a model whose initializer %d of %d has a payload that does not match its shape was loaded", bad, n)
		}
		return
	}
	if lr.err != nil {
		rt.Fatalf("C12 violated: %d well-formed initializers refused: %v", n, lr.err)
	}
	rr := runModel(lr.m, gonnx.Tensors{})
	if rr.err != nil || rr.panicked {
		rt.Fatalf("C12 violated: Run of an initializer-only graph fails: %v %v", rr.err, rr.panicVal)
	}
	for name, w := range want {
		if d := sameBits(rr.outs[name], w); d != "" {
			rt.Fatalf("C12 violated: initializer %s of %d differs: %s", name, n, d)
		}
	}
}

// perturbed returns a copy of the backing slice in which the lowest bit of element i is flipped.
func perturbed(backing any, i int) any {
	src := reflect.ValueOf(backing)
	dst := reflect.MakeSlice(src.Type(), src.Len(), src.Len())
	reflect.Copy(dst, src)
	e := dst.Index(i)
	switch e.Kind() {
	case reflect.Bool:
		e.SetBool(!e.Bool())
	case reflect.Float32:
		e.Set(reflect.ValueOf(math.Float32frombits(math.Float32bits(e.Interface().(float32)) ^ 1)))
	case reflect.Float64:
		e.SetFloat(math.Float64frombits(math.Float64bits(e.Float()) ^ 1))
	case reflect.Int, reflect.Int8, reflect.Int16, reflect.Int32, reflect.Int64:
		e.SetInt(e.Int() ^ 1)
	default:
		e.SetUint(e.Uint() ^ 1)
	}
	return dst.Interface()
}

// c12TwinPayloads: a process loads many models, and the weights of two of them often differ in a few
// elements only (a fine-tuned copy). Every decode yields the values of its own payload, whatever
// was decoded before: payload A, then A with one or two elements changed in their lowest bit, then A
// again, each compared bit for bit with what the harness encoded.
func c12TwinPayloads(rt *rapid.T) {
	dt := rapid.SampledFrom(c12Dtypes).Draw(rt, "dtype")
	var shape []int
	switch rapid.IntRange(0, 3).Draw(rt, "size") {
	case 0:
		shape = genShape(1, 3, 4, 64).Draw(rt, "shape")
	case 1:
		shape = []int{rapid.IntRange(1, 600).Draw(rt, "n")}
	case 2:
		shape = []int{rapid.IntRange(1, 40).Draw(rt, "rows"), rapid.IntRange(1, 150).Draw(rt, "cols")}
	default:
		shape = []int{rapid.SampledFrom([]int{127, 128, 129, 255, 256, 257, 1023, 1024, 1025, 2048, 4096, 4097}).Draw(rt, "nThreshold")}
	}
	n := prod(shape)
	typed := rapid.Bool().Draw(rt, "typed")
	a := genBits(dt, n).Draw(rt, "values")
	b := a
	k := rapid.IntRange(1, 2).Draw(rt, "changedElements")
	var at []int
	for j := 0; j < k; j++ {
		i := rapid.IntRange(0, n-1).Draw(rt, "changedAt")
		b = perturbed(b, i)
		at = append(at, i)
	}
	ev.Case("twin-payloads", fmt.Sprintf("%v %v typed=%v changed=%v #%x", dt, shape, typed, at, hash64(fmt.Sprint(a))), true,
		fmt.Sprintf("payload-bytes>1024=%v", n*elemSize(dt) > 1024), "type-"+dt.String())
	modelLevel := rapid.IntRange(0, 3).Draw(rt, "modelLevel") == 0
	var earlier []c12Case
	var earlierRes []decodeResult
	for step, backing := range []any{a, b, a} {
		c := c12Case{shape: shape, backing: backing, typed: typed, valid: true, kind: "valid"}
		c.tp = encodeTensor("w", shape, backing, typed)
		var res decodeResult
		if modelLevel {
			res = decodeThroughModel(c.tp)
		} else {
			res = decodeProto(c.tp)
		}
		if v := c12Judge(c, res); v != "" {
			rt.Fatalf("C12 violated by %v, decode %d of the sequence (payload, payload with elements %v changed in the lowest bit, payload): %s", c, step+1, at, v)
		}
		earlier = append(earlier, c)
		earlierRes = append(earlierRes, res)
		// a loaded weight keeps its values while further payloads are decoded
		for j := range earlier[:step] {
			if v := c12Judge(earlier[j], earlierRes[j]); v != "" {
				rt.Fatalf("C12 violated by %v: the tensor of decode %d no longer holds its values after decode %d: %s", earlier[j], j+1, step+1, v)
			}
		}
	}
}

func TestC12(t *testing.T) {
	ev.Begin("C12",
		"rapid: element type from the 11, typed repeated field or little-endian raw bytes, shape of rank 0..4, element bit patterns (uniform 64-bit, extremes, NaN payloads, -0, small), encoded by the harness's own encoder; one in four cases malformed (payload short/long by a byte or an element, empty, negative dim, overflowing dims, shape with another element count) or given a data_type code the library cannot represent with one typed field or raw bytes populated. "+
			"Non-trivial = anything but well-formed raw float32/int64 (the only path the sample models reach); distinct = (data_type, dims, encoding, malformation, value bits).",
		"oracle: round trip through the harness's encoder, bit-exact; malformed or unrepresentable inputs must give a non-nil error (a tensor or a panic is a violation)")
	defer reportKnownFindings("C12")
	check(t, "decode", 60000, 300000, c12Prop)
	check(t, "many-initializers", 300, 3000, c12ManyInitializers)
	check(t, "twin-payloads", 4000, 40000, c12TwinPayloads)
}

func init() {
	kfRepro["KF-C12-raw-uint64"] = func() (bool, string) {
		r := decodeProto(encodeTensor("w", []int{2}, []uint64{5, 1 << 40}, false))
		if r.err != nil || r.panicked {
			return true, r.String()
		}
		return sameBits(r.t, mkT([]int{2}, []uint64{5, 1 << 40})) != "", "raw uint64 [5, 2^40] -> " + r.String()
	}
	kfRepro["KF-C12-malformed-payload"] = func() (bool, string) {
		tp := encodeTensor("w", []int{2, 2}, []float32{1, 2, 3, 4}, false)
		tp.RawData = tp.RawData[:15]
		r1 := decodeProto(tp)
		tp2 := encodeTensor("w", []int{2, 2}, []float32{1, 2, 3, 4}, false)
		tp2.RawData = tp2.RawData[:12]
		r2 := decodeProto(tp2)
		return r1.err == nil || r2.err == nil, fmt.Sprintf("float32 (2,2) with 15 raw bytes -> %v; with 12 raw bytes -> %v", r1, r2)
	}
	kfRepro["KF-C12-unsupported-type-fallback"] = func() (bool, string) {
		tp := &onnx.TensorProto{DataType: 10, Dims: []int64{2}, Int32Data: []int32{15360, 16384}}
		r := decodeProto(tp)
		return r.err == nil, "FLOAT16 tensor with int32_data -> " + r.String()
	}
}

// FuzzC12 is the native coverage-guided target (thorough tier only): the fuzzer chooses data_type,
// dims, the raw payload and which typed field is populated; the oracle is the same as in TestC12,
// reduced to what can be said without knowing the intended values: a well-formed tensor of a
// supported type decodes to exactly the declared shape and type with the payload's bits; anything
// else must be an error.
func FuzzC12(f *testing.F) {
	f.Add(int32(1), []byte{2, 2}, []byte{0, 0, 128, 63, 0, 0, 0, 64, 0, 0, 64, 64, 0, 0, 128, 64}, uint8(0))
	f.Add(int32(13), []byte{2}, make([]byte, 16), uint8(0))
	f.Add(int32(7), []byte{3}, make([]byte, 23), uint8(0))
	f.Add(int32(10), []byte{2}, []byte{1, 2, 3, 4}, uint8(2))
	f.Add(int32(1), []byte{255, 2}, []byte{}, uint8(1))
	f.Fuzz(func(t *testing.T, dataType int32, dimBytes []byte, payload []byte, field uint8) {
		if len(dimBytes) > 5 || len(payload) > 256 {
			return
		}
		tp := &onnx.TensorProto{DataType: dataType}
		n := 1
		for _, d := range dimBytes {
			v := int64(int8(d)) // negative dims included
			tp.Dims = append(tp.Dims, v)
			if v <= 0 || n > 4096 {
				n = -1
			} else if n > 0 {
				n *= int(v)
			}
		}
		var dt tensor.Dtype
		supported := false
		for d, code := range onnxTypeOf {
			if code == dataType {
				dt, supported = d, true
			}
		}
		switch field % 4 {
		case 0:
			tp.RawData = payload
		case 1:
			for _, b := range payload {
				tp.FloatData = append(tp.FloatData, float32(int8(b)))
			}
		case 2:
			for _, b := range payload {
				tp.Int32Data = append(tp.Int32Data, int32(int8(b)))
			}
		default:
			for _, b := range payload {
				tp.Int64Data = append(tp.Int64Data, int64(int8(b)))
			}
		}
		res := decodeProto(tp)
		if res.panicked {
			t.Fatalf("C12 violated: decoding panics: %v (data_type=%d dims=%v field=%d payload=%d bytes)", res.panicVal, dataType, tp.Dims, field%4, len(payload))
		}
		if res.err != nil {
			return
		}
		if !supported {
			if kfOpen("KF-C12-unsupported-type-fallback") && field%4 != 0 {
				return
			}
			t.Fatalf("C12 violated: data_type %d was loaded as %v", dataType, res.t.Dtype())
		}
		if res.t.Dtype() != dt {
			t.Fatalf("C12 violated: data_type %d loaded as %v, want %v", dataType, res.t.Dtype(), dt)
		}
		if n < 0 {
			for _, d := range tp.Dims {
				if d < 0 {
					t.Fatalf("C12 violated: negative dims %v accepted", tp.Dims)
				}
			}
			return // zero extents / huge shapes: outside the asserted domain
		}
		if field%4 == 0 {
			if len(payload) != n*elemSize(dt) {
				t.Fatalf("C12 violated: %d raw bytes accepted for dims %v of %v", len(payload), tp.Dims, dt)
			}
			got := rawBytes(elems(res.t))
			if dt == tensor.Bool {
				for i := range got {
					if (got[i] != 0) != (payload[i] != 0) {
						t.Fatalf("C12 violated: bool element %d decoded as %v from byte %d", i, got[i], payload[i])
					}
				}
				return
			}
			if string(got) != string(payload) {
				t.Fatalf("C12 violated: decoded values differ from the raw payload (dims %v, %v)", tp.Dims, dt)
			}
		} else if prod(res.t.Shape()) != n {
			t.Fatalf("C12 violated: tensor of %d elements for dims %v", prod(res.t.Shape()), tp.Dims)
		}
	})
}
