package harness

// C05 — Conv equals direct convolution for every geometry, not only square ones.

import (
	"fmt"
	"math"
	"testing"

	"github.com/advancedclimatesystems/gonnx/onnx"
	"gorgonia.org/tensor"
	"pgregory.net/rapid"
)

type convGeom struct {
	n, c, m  int
	in       []int // spatial extents
	k        []int // kernel extents
	stride   []int
	dil      []int
	padLo    []int
	padHi    []int
	autoPad  string // "", NOTSET, SAME_UPPER, SAME_LOWER, VALID
	hasBias  bool
	kshapeAt bool // kernel_shape attribute given
	group    int  // 0 = absent
}

// onnxAutoPads computes the ONNX pads for an auto_pad mode.
func onnxAutoPads(mode string, in, k, stride, dil []int) (lo, hi []int) {
	lo, hi = make([]int, len(in)), make([]int, len(in))
	if mode != "SAME_UPPER" && mode != "SAME_LOWER" {
		return
	}
	for i := range in {
		ke := (k[i]-1)*dil[i] + 1
		out := (in[i] + stride[i] - 1) / stride[i]
		tot := (out-1)*stride[i] + ke - in[i]
		if tot < 0 {
			tot = 0
		}
		if mode == "SAME_UPPER" {
			lo[i] = tot / 2
		} else {
			lo[i] = (tot + 1) / 2
		}
		hi[i] = tot - lo[i]
	}
	return
}

// refConv: direct convolution in float64 with condition sums. ok=false if an output extent < 1.
func refConv(g convGeom, x, w, b []float64, lo, hi []int) (dotRef, bool) {
	sp := len(g.in)
	out := make([]int, sp)
	for i := 0; i < sp; i++ {
		ke := (g.k[i]-1)*g.dil[i] + 1
		num := g.in[i] + lo[i] + hi[i] - ke
		if num < 0 {
			return dotRef{}, false
		}
		out[i] = num/g.stride[i] + 1
	}
	r := dotRef{shape: append([]int{g.n, g.m}, out...), k: g.c*prod(g.k) + 1}
	inSz, kSz, oSz := prod(g.in), prod(g.k), prod(out)
	// flat loops without per-element allocation (large images are generated occasionally)
	oi, ki := make([]int, sp), make([]int, sp)
	for n := 0; n < g.n; n++ {
		for m := 0; m < g.m; m++ {
			for o := 0; o < oSz; o++ {
				rem := o
				for a := sp - 1; a >= 0; a-- {
					oi[a] = rem % out[a]
					rem /= out[a]
				}
				s, cond := 0.0, 0.0
				for c := 0; c < g.c; c++ {
					wBase, xBase := (m*g.c+c)*kSz, (n*g.c+c)*inSz
					for t := 0; t < kSz; t++ {
						rem := t
						for a := sp - 1; a >= 0; a-- {
							ki[a] = rem % g.k[a]
							rem /= g.k[a]
						}
						off, inside := 0, true
						for a := 0; a < sp; a++ {
							p := oi[a]*g.stride[a] + ki[a]*g.dil[a] - lo[a]
							if p < 0 || p >= g.in[a] {
								inside = false
								break
							}
							off = off*g.in[a] + p
						}
						if !inside {
							continue
						}
						p := w[wBase+t] * x[xBase+off]
						s += p
						cond += math.Abs(p)
					}
				}
				if b != nil {
					s += b[m]
					cond += math.Abs(b[m])
				}
				r.val = append(r.val, s)
				r.cond = append(r.cond, cond)
			}
		}
	}
	return r, true
}

func (g convGeom) String() string {
	return fmt.Sprintf("N=%d C=%d M=%d in=%v k=%v stride=%v dil=%v pads=%v/%v auto_pad=%q bias=%v kernel_shape=%v group=%d",
		g.n, g.c, g.m, g.in, g.k, g.stride, g.dil, g.padLo, g.padHi, g.autoPad, g.hasBias, g.kshapeAt, g.group)
}

func genConvGeom(rt *rapid.T) convGeom {
	var g convGeom
	sp := rapid.SampledFrom([]int{1, 2, 2, 2}).Draw(rt, "spatialDims")
	g.n, g.c, g.m = rapid.IntRange(1, 3).Draw(rt, "N"), rapid.IntRange(1, 3).Draw(rt, "C"), rapid.IntRange(1, 3).Draw(rt, "M")
	g.autoPad = rapid.SampledFrom([]string{"", "", "", "NOTSET", "SAME_UPPER", "SAME_LOWER", "VALID"}).Draw(rt, "autoPad")
	g.in, g.k, g.stride, g.dil, g.padLo, g.padHi = make([]int, sp), make([]int, sp), make([]int, sp), make([]int, sp), make([]int, sp), make([]int, sp)
	for a := 0; a < sp; a++ {
		g.k[a] = rapid.SampledFrom([]int{1, 2, 2, 3, 3, 4}).Draw(rt, "k")
		g.dil[a] = rapid.SampledFrom([]int{1, 1, 1, 2, 3}).Draw(rt, "dil")
		g.stride[a] = rapid.SampledFrom([]int{1, 1, 1, 2, 3}).Draw(rt, "stride")
		ke := (g.k[a]-1)*g.dil[a] + 1
		switch g.autoPad {
		case "SAME_UPPER", "SAME_LOWER":
			if g.stride[a] > ke && rapid.IntRange(0, 2).Draw(rt, "wideStride") > 0 {
				// a stride beyond the dilated kernel makes the SAME formula negative for some input
				// extents; runtimes clamp the padding at 0 (the reference does), so such cases
				// are kept at a lower rate: computed with clamped pads, or refused
				g.stride[a] = ke
			}
			g.in[a] = rapid.IntRange(1, 9).Draw(rt, "in")
		case "VALID":
			g.in[a] = rapid.IntRange(ke, ke+5).Draw(rt, "in")
		default:
			lo, hi := rapid.IntRange(0, 3).Draw(rt, "padLo"), rapid.IntRange(0, 3).Draw(rt, "padHi")
			if rapid.IntRange(0, 2).Draw(rt, "noPads") == 0 {
				lo, hi = 0, 0
			}
			o := rapid.IntRange(1, 4).Draw(rt, "out")
			if a == sp-1 && rapid.IntRange(0, 29).Draw(rt, "bigOut") == 0 {
				o = rapid.SampledFrom([]int{9, 16, 17, 33}).Draw(rt, "bigOutExt")
			}
			p := (o-1)*g.stride[a] + ke + rapid.IntRange(0, g.stride[a]-1).Draw(rt, "slack")
			for p-lo-hi < 1 {
				if lo > 0 {
					lo--
				} else {
					hi--
				}
			}
			g.in[a], g.padLo[a], g.padHi[a] = p-lo-hi, lo, hi
		}
	}
	if sp == 2 && (g.autoPad == "" || g.autoPad == "NOTSET") && rapid.IntRange(0, 1499).Draw(rt, "largeImage") == 0 {
		// an output of more than 16 384 elements (thresholds of blocked / parallel convolution loops)
		g.n, g.c, g.m = rapid.IntRange(1, 2).Draw(rt, "largeN"), 1, rapid.IntRange(3, 6).Draw(rt, "largeM")
		for a := 0; a < 2; a++ {
			g.k[a], g.dil[a], g.stride[a] = rapid.IntRange(2, 3).Draw(rt, "largeK"), 1, 1
			g.in[a] = rapid.IntRange(50, 66).Draw(rt, "largeIn")
			g.padLo[a], g.padHi[a] = rapid.IntRange(0, 1).Draw(rt, "largePadLo"), rapid.IntRange(0, 1).Draw(rt, "largePadHi")
		}
	}
	g.hasBias = rapid.Bool().Draw(rt, "bias")
	g.kshapeAt = rapid.Bool().Draw(rt, "kernelShapeAttr")
	g.group = rapid.SampledFrom([]int{0, 0, 0, 1, 1, 2}).Draw(rt, "group")
	return g
}

func (g convGeom) node() *onnx.NodeProto {
	i64 := func(v []int) []int64 {
		o := make([]int64, len(v))
		for i, x := range v {
			o[i] = int64(x)
		}
		return o
	}
	var attrs []*onnx.AttributeProto
	if g.autoPad != "" {
		attrs = append(attrs, attrS("auto_pad", g.autoPad))
	}
	anyNot1 := func(v []int) bool {
		for _, x := range v {
			if x != 1 {
				return true
			}
		}
		return false
	}
	if anyNot1(g.dil) || g.n%2 == 0 {
		attrs = append(attrs, attrInts("dilations", i64(g.dil)...))
	}
	if anyNot1(g.stride) || g.c%2 == 0 {
		attrs = append(attrs, attrInts("strides", i64(g.stride)...))
	}
	if g.kshapeAt {
		attrs = append(attrs, attrInts("kernel_shape", i64(g.k)...))
	}
	if g.autoPad == "" || g.autoPad == "NOTSET" {
		anyPad := false
		for a := range g.padLo {
			if g.padLo[a] != 0 || g.padHi[a] != 0 {
				anyPad = true
			}
		}
		if anyPad || g.m%2 == 0 {
			attrs = append(attrs, attrInts("pads", append(i64(g.padLo), i64(g.padHi)...)...))
		}
	}
	if g.group != 0 {
		attrs = append(attrs, attrI("group", int64(g.group)))
	}
	return mkNode("Conv", nil, []string{"y"}, attrs...)
}

func (g convGeom) nontrivial() bool {
	if g.autoPad != "" && g.autoPad != "NOTSET" {
		return true
	}
	for a := range g.in {
		if g.stride[a] != 1 || g.dil[a] != 1 || g.padLo[a] != g.padHi[a] {
			return true
		}
	}
	return len(g.in) == 2 && (g.in[0] != g.in[1] || g.k[0] != g.k[1])
}

type c05Case struct {
	g       convGeom
	dt      tensor.Dtype
	x, w, b tensor.Tensor
}

func (c c05Case) String() string {
	return fmt.Sprintf("%v %v #%x", c.g, c.dt, hashBits(append(bitsAll(c.x), bitsAll(c.w)...)))
}

func (c c05Case) inputs() []tensor.Tensor {
	ins := []tensor.Tensor{cloneT(c.x), cloneT(c.w)}
	if c.b != nil {
		ins = append(ins, cloneT(c.b))
	}
	return ins
}

func c05Judge(c c05Case, res opResult) string {
	g := c.g
	if g.group > 1 {
		if res.err == nil && !res.panicked {
			return "group != 1 is not implemented and must be refused, got " + res.String()
		}
		if res.panicked {
			return "panic: " + fmt.Sprint(res.panicVal)
		}
		return ""
	}
	lo, hi := g.padLo, g.padHi
	if g.autoPad == "SAME_UPPER" || g.autoPad == "SAME_LOWER" {
		lo, hi = onnxAutoPads(g.autoPad, g.in, g.k, g.stride, g.dil)
	} else if g.autoPad == "VALID" {
		lo, hi = make([]int, len(g.in)), make([]int, len(g.in))
	}
	var bv []float64
	if c.b != nil {
		bv = f64s(c.b)
	}
	ref, ok := refConv(g, f64s(c.x), f64s(c.w), bv, lo, hi)
	if !ok {
		panic("generator produced an empty output")
	}
	judge := func(r dotRef) string {
		if res.panicked {
			return "panic: " + fmt.Sprint(res.panicVal)
		}
		if res.err != nil {
			return ""
		}
		if len(res.outs) != 1 || res.outs[0] == nil {
			return "expected exactly one non-nil output"
		}
		out := res.outs[0]
		if !eqInts(out.Shape(), r.shape) {
			return fmt.Sprintf("shape %v, want %v", out.Shape(), r.shape)
		}
		if out.Dtype() != c.dt {
			return fmt.Sprintf("dtype %v, want %v", out.Dtype(), c.dt)
		}
		return r.check(c.dt, f64s(out))
	}
	v := judge(ref)
	if v == "" {
		if res.err != nil {
			// "A configuration the library does not implement is refused": the only configurations
			// (with group 1) the library refuses are those with a kernel extent of 1 on some axis
			// (its slicing drops that axis). Refusing anything else takes back the first sentence.
			unit := false
			for _, k := range g.k {
				if k == 1 {
					unit = true
				}
			}
			if !unit {
				return "a configuration the library implements was refused: " + res.err.Error()
			}
			ev.Refused("C05 kernel extent 1: " + refusalReason(res.err))
		}
		return ""
	}
	if g.autoPad == "VALID" && kfOpen("KF-C05-valid-computed-as-same-upper") {
		// the library treats VALID like SAME_UPPER (pinned by its own test-suite)
		slo, shi := onnxAutoPads("SAME_UPPER", g.in, g.k, g.stride, g.dil)
		if alt, ok := refConv(g, f64s(c.x), f64s(c.w), bv, slo, shi); ok && judge(alt) == "" {
			ev.KF("KF-C05-valid-computed-as-same-upper")
			return ""
		}
	}
	return v
}

func TestC05(t *testing.T) {
	ev.Begin("C05",
		"rapid: 1-D and 2-D convolutions, N,C,M in 1..3, kernel extents 1..4, strides and dilations 1..3 and pads 0..3 drawn independently per axis and side; for explicit pads the output extent (1..4) is drawn and the input extent derived (so every case has a non-empty output by construction), for auto_pad in {SAME_UPPER, SAME_LOWER, VALID} the input extent is drawn (stride <= effective kernel for SAME_*); kernel_shape given or inferred, bias present/absent, float32 or float64, group absent/1/2. "+
			"Non-trivial: H != W or kh != kw, a stride or dilation != 1, asymmetric pads, or auto_pad set. Distinct = (geometry, dtype, value bits).",
		"float64 direct convolution with the gamma_K forward bound (K = C*kh*kw + 1); a refusal is allowed by the statement ('a configuration the library does not implement is refused')")
	defer reportKnownFindings("C05")

	check(t, "conv", 5000, 30000, func(rt *rapid.T) {
		var c c05Case
		c.g = genConvGeom(rt)
		c.dt = rapid.SampledFrom([]tensor.Dtype{tensor.Float32, tensor.Float32, tensor.Float64}).Draw(rt, "dtype")
		g := c.g
		c.x = toDtype(c.dt, append([]int{g.n, g.c}, g.in...), genDotValues(rt, g.n*g.c*prod(g.in), "x"))
		c.w = toDtype(c.dt, append([]int{g.m, g.c}, g.k...), genDotValues(rt, g.m*g.c*prod(g.k), "w"))
		if g.hasBias {
			c.b = toDtype(c.dt, []int{g.m}, genDotValues(rt, g.m, "b"))
		}
		node := g.node()
		res := runOp("Conv", node, c.inputs())
		cls := []string{fmt.Sprintf("%dD", len(g.in)), "auto_pad=" + g.autoPad, "dtype-" + c.dt.String()}
		if len(g.in) == 2 {
			if g.in[0] != g.in[1] {
				cls = append(cls, "H!=W")
			}
			if g.in[1]+g.padLo[1]+g.padHi[1] > g.in[0]+g.padLo[0]+g.padHi[0] {
				cls = append(cls, "paddedW>paddedH")
			}
			if g.k[0] != g.k[1] {
				cls = append(cls, "kh!=kw")
			}
		}
		for a := range g.in {
			if g.k[a] == 1 {
				cls = append(cls, "kernel-extent-1")
				break
			}
		}
		if g.hasBias {
			cls = append(cls, "bias")
		}
		if g.group > 1 {
			cls = append(cls, "group>1")
		}
		if res.ok() {
			cls = append(cls, "computed")
		} else if res.refused() {
			cls = append(cls, "refused")
		}
		ev.Case("C05", c.String(), g.nontrivial(), cls...)
		if v := c05Judge(c, res); v != "" {
			rt.Fatalf("C05 violated by %v\n%s: %s\noutcome: %v", c, descNode(node), v, res)
		}
		// the caller owns its tensors: the same weight object with new contents, given to a fresh
		// operator, must be convolved with the new contents
		if res.ok() && g.group <= 1 && rapid.IntRange(0, 9).Draw(rt, "reuseWeightObject") == 0 {
			ins := c.inputs()
			first := runOp("Conv", node, ins)
			wv := f64s(c.w)
			for i := range wv {
				wv[i] = -wv[i] + 0.5
			}
			c2 := c
			c2.w = toDtype(c.dt, c.w.Shape(), wv)
			if err := tensor.Copy(ins[1], c2.w); err != nil {
				rt.Fatalf("harness: cannot overwrite the weight tensor in place: %v", err)
			}
			second := runOp("Conv", node, ins)
			ev.Class("C05", "weight-object-reused-with-new-contents")
			if v := c05Judge(c, first); v != "" {
				rt.Fatalf("C05 violated by %v: %s", c, v)
			}
			if v := c05Judge(c2, second); v != "" {
				rt.Fatalf("C05 violated by %v when the weight tensor object of a previous call is passed again with new contents: %s", c2, v)
			}
		}
		// a Conv node of a Model serves inputs of many batch sizes and spatial extents: an instance
		// that has served another request answers this one exactly like a fresh instance
		if res.ok() && rapid.IntRange(0, 3).Draw(rt, "reusedInstance") == 0 {
			n1 := rapid.IntRange(1, 3).Draw(rt, "otherN")
			in1 := make([]int, len(g.in))
			for a := range in1 {
				in1[a] = g.in[a] + rapid.IntRange(0, 3).Draw(rt, "otherExtentPlus")
			}
			x1 := toDtype(c.dt, append([]int{n1, g.c}, in1...), genDotValues(rt, n1*g.c*prod(in1), "otherX"))
			first := []tensor.Tensor{x1, cloneT(c.w)}
			if c.b != nil {
				first = append(first, cloneT(c.b))
			}
			ev.Class("C05", "instance-reused-after-another-input-size")
			if d := reuseDifferential("Conv", node, first, c.inputs()); d != "" {
				rt.Fatalf("C05 violated by %v after the same operator instance convolved an input of shape %v: %s", c, x1.Shape(), d)
			}
		}
		if rapid.IntRange(0, 4).Draw(rt, "modelLevel") == 0 {
			mres := runSingleNodeModel(node, c.inputs(), 1)
			ev.Class("C05", "model-level")
			if d := agreeLevels(res, mres); d != "" {
				rt.Fatalf("C05 violated by %v: single-node model disagrees with operator API: %s", c, d)
			}
		}
	})
}

func init() {
	kfRepro["KF-C05-valid-computed-as-same-upper"] = func() (bool, string) {
		x := rangeT(tensor.Float32, []int{1, 1, 3, 3})
		w := mkT([]int{1, 1, 2, 2}, []float32{1, 1, 1, 1})
		r := runOp("Conv", mkNode("Conv", nil, nil, attrS("auto_pad", "VALID")), []tensor.Tensor{x, w})
		return !(r.ok() && eqInts(r.outs[0].Shape(), []int{1, 1, 2, 2})), "Conv(3x3 input, 2x2 kernel, auto_pad=VALID) -> " + r.String() + ", want shape (1,1,2,2)"
	}
}
