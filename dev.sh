#!/bin/sh
# development helper: ./dev.sh <TestRegex> [extra test-binary args]; honours VERIF_TIER, VERIF_SCALE
export GOFLAGS=-mod=mod GOPROXY=off GOSUMDB=off GOTOOLCHAIN=local
d=/tmp/vh-dev; mkdir -p $d; rm -rf $d/testdata
cd /verif/harness && go test -c -tags verif -o $d/h.test . || exit 2
cd $d && VERIF_EVIDENCE_PART=$d/part.json VERIF_FAIL_DIR=$d ./h.test -test.run "$1" -rapid.seed=${VERIF_RSEED:-7} -test.timeout=${VERIF_TO:-120s} $2 $3 $4
