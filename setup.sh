#!/bin/sh
# Offline setup: warm the Go build cache for the harness (plain and -race builds) from files on disk.
set -e
export GOFLAGS=-mod=mod GOPROXY=off GOSUMDB=off GOTOOLCHAIN=local
cd "$(dirname "$0")/harness"
tmp=$(mktemp -d)
trap 'rm -rf "$tmp"' EXIT
go test -c -tags verif -o "$tmp/h.test" .
go test -c -race -tags verif -o "$tmp/hr.test" .
mkdir -p ../evidence ../replays
echo setup ok
