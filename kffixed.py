#!/usr/bin/env python3
"""dev helper: kffixed.py <finding id> <commit> [<property2> ...]  -- moves an open finding to the fixed list"""
import json, sys
p = '/verif/known_findings.json'
d = json.load(open(p))
i, commit = sys.argv[1], sys.argv[2]
f = [x for x in d['findings'] if x['id'] == i]
assert f, i
f = f[0]
d['findings'] = [x for x in d['findings'] if x['id'] != i]
props = [f['property']] + sys.argv[3:]
for pr in props:
    d['fixed'].append("fixed: property=%s %s %s: %s (%s; was %s)" % (pr, commit, f['input_class'], f['deviation'], f['where'], i))
json.dump(d, open(p, 'w'), indent=1)
