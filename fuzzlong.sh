#!/bin/sh
# Long native fuzz campaign of one target against a checkout (default /repo):
#   ./fuzzlong.sh FuzzC18 20m [/path/to/checkout]
# Builds a private copy of the harness module whose replace directive points at the checkout.
set -e
target=$1; dur=${2:-10m}; repo=${3:-${VERIF_REPO:-/repo}}
export GOFLAGS=-mod=mod GOPROXY=off GOSUMDB=off GOTOOLCHAIN=local
here=$(cd "$(dirname "$0")" && pwd)
tmp=$(mktemp -d)
trap 'rm -rf "$tmp"' EXIT
mkdir "$tmp/h" && cp "$here"/harness/*.go "$here"/harness/go.mod "$here"/harness/go.sum "$tmp/h/"
sed -i "s#=> /repo#=> $repo#" "$tmp/h/go.mod"
cd "$tmp/h"
VERIF_KF_FILE="$here/known_findings.json" VERIF_REPO="$repo" go test -tags verif -run '^$' -fuzz "^$target\$" -fuzztime "$dur" -test.fuzzcachedir "$tmp/cache" . 2>&1 | tail -25
if [ -d testdata/fuzz/$target ]; then mkdir -p "$here/replays/fuzzlong"; cp testdata/fuzz/$target/* "$here/replays/fuzzlong/" 2>/dev/null; echo "CRASHERS COPIED to $here/replays/fuzzlong"; fi
