#!/usr/bin/env python3
"""Confirms a seeded change and runs the checks against it.

  seedtest.py <mutation-dir> <property-id> [--checks C01,C02,...] [--tier quick] [--keep <seed-id>]

<mutation-dir> holds patch.diff, demo_test.go and notes.md (as produced by the independent
sub-agents). Steps:
  1. scratch worktree of /repo HEAD outside /repo and /verif; apply the patch there;
     run the repository's own suite (only TestOps may fail) -> "suite_passes_with_patch"
  2. run the demonstration with the patch (must fail) and without it (must pass)
  3. apply the patch to /repo itself, run the listed checks (default: the property's own check,
     then all others), undo the patch (git checkout -- .)
  4. with --keep: copy patch, demo and a meta.json to /verif/seeded/<seed-id>/
The scratch worktree and its build output are removed at the end.
"""
import json
import os
import re
import shutil
import subprocess
import sys
import tempfile
import time

REPO = "/repo"
VERIF = os.path.dirname(os.path.abspath(__file__))
# the checks run against a patched /repo here: their evidence and replay files must not land in /verif
ENV = dict(os.environ, GOFLAGS="-mod=mod", GOPROXY="off", GOSUMDB="off", GOTOOLCHAIN="local", VERIF_SCRATCH_OUT="/tmp/seed-out")
PROPS = ["C%02d" % i for i in range(1, 19)]


def sh(cmd, cwd=None, timeout=1800):
    p = subprocess.run(cmd, cwd=cwd, env=ENV, shell=isinstance(cmd, str), stdout=subprocess.PIPE, stderr=subprocess.STDOUT, text=True, timeout=timeout)
    return p.returncode, p.stdout


def apply_patch(tree, patch):
    for args in (["git", "apply", "--whitespace=nowarn", patch], ["git", "apply", "--3way", "--whitespace=nowarn", patch],
                 ["patch", "-p1", "--fuzz=3", "--no-backup-if-mismatch", "-i", patch]):
        rc, out = sh(args, cwd=tree)
        if rc == 0:
            return True, " ".join(args[:3])
        sh(["git", "checkout", "--", "."], cwd=tree)
    return False, out


def demo_location(demo_path):
    head = open(demo_path, errors="replace").read(4000)
    m = re.search(r"^package\s+(\w+)", head, re.M)
    pkg = m.group(1) if m else ""
    if pkg in ("opset13",):
        return "ops/opset13"
    if pkg in ("ops", "ops_test"):
        return "ops"
    if pkg in ("onnx", "onnx_test"):
        return "onnx"
    if pkg == "opset13_test":
        return "ops/opset13"
    return "."


def run_demo(tree, demo_path):
    loc = demo_location(demo_path)
    dst = os.path.join(tree, loc, "zz_seed_demo_test.go")
    shutil.copy(demo_path, dst)
    try:
        race = "-race" if re.search(r"-race", open(demo_path, errors="replace").read(3000)) else ""
        names = re.findall(r"^func (Test\w+)\(", open(demo_path, errors="replace").read(), re.M)
        run = "^(%s)$" % "|".join(names) if names else "."
        rc, out = sh("go test -vet=off -count=1 %s -run '%s' ./%s" % (race, run, loc), cwd=tree, timeout=1200)
        return rc, out
    finally:
        os.remove(dst)


def main():
    if len(sys.argv) < 3:
        print(__doc__)
        return 2
    mdir, prop = os.path.abspath(sys.argv[1]), sys.argv[2]
    checks = None
    keep = None
    tier = "quick"
    own_first = False
    a = sys.argv[3:]
    while a:
        if a[0] == "--checks":
            checks = a[1].split(",")
            a = a[2:]
        elif a[0] == "--keep":
            keep = a[1]
            a = a[2:]
        elif a[0] == "--tier":
            tier = a[1]
            a = a[2:]
        elif a[0] == "--own-first":
            # the property's own check (plus the checks that caught the change before); the others only if none of these catches it
            own_first = True
            a = a[1:]
        else:
            a = a[1:]
    patch = os.path.join(mdir, "patch.diff")
    demo = os.path.join(mdir, "demo_test.go")
    res = {"mutation_dir": mdir, "property": prop, "repo_head": sh(["git", "-C", REPO, "log", "--format=%h", "-1"])[1].strip()}
    if sh(["git", "-C", REPO, "status", "--porcelain"])[1].strip():
        print("refusing: /repo has uncommitted changes")
        return 2
    wt = tempfile.mkdtemp(prefix="seedwt-")
    os.rmdir(wt)
    try:
        rc, out = sh(["git", "-C", REPO, "worktree", "add", "-q", "--detach", wt, "HEAD"])
        if rc != 0:
            print(out)
            return 2
        ok, how = apply_patch(wt, patch)
        res["patch_applies"] = ok
        if not ok:
            res["apply_output"] = how[-2000:]
            print(json.dumps(res, indent=1))
            return 1
        res["applied_with"] = how
        # keep the patch as it applies to the current HEAD
        res["effective_patch"] = sh(["git", "diff"], cwd=wt)[1]
        rc, out = sh("go build ./... && go test -vet=off -count=1 ./... 2>&1", cwd=wt)
        fails = sorted(set(re.findall(r"^--- FAIL: (\w+)", out, re.M)))
        res["suite_failures_with_patch"] = fails
        res["suite_passes_with_patch"] = fails in ([], ["TestOps"]) and "build failed" not in out and "cannot" not in out.split("FAIL")[0][-200:]
        rc1, out1 = run_demo(wt, demo)
        res["demo_fails_with_patch"] = rc1 != 0 and "[build failed]" not in out1 and "[setup failed]" not in out1
        res["demo_with_patch_tail"] = out1[-1500:]
        sh(["git", "checkout", "--", "."], cwd=wt)
        rc2, out2 = run_demo(wt, demo)
        res["demo_passes_without_patch"] = rc2 == 0
        if rc2 != 0:
            res["demo_without_patch_tail"] = out2[-1500:]
    finally:
        sh(["git", "-C", REPO, "worktree", "remove", "--force", wt])
        shutil.rmtree(wt, ignore_errors=True)
    res["confirmed"] = bool(res.get("suite_passes_with_patch") and res.get("demo_fails_with_patch") and res.get("demo_passes_without_patch"))
    # run the checks against the patched /repo
    eff = os.path.join(tempfile.gettempdir(), "seed-effective-%d.diff" % os.getpid())
    open(eff, "w").write(res["effective_patch"])
    order = checks or ([prop] + [p for p in PROPS if p != prop])
    rest = []
    if own_first and not checks:
        prev = []
        try:
            prev = json.load(open(os.path.join(VERIF, "seeded", keep or "", "meta.json"))).get("caught_by", [])
        except Exception:
            pass
        first = [prop] + [p for p in prev if p != prop and p in PROPS]
        rest = [p for p in PROPS if p not in first]
        order = first
    res["checks"] = {}
    try:
        rc, out = sh(["git", "-C", REPO, "apply", "--whitespace=nowarn", eff])
        if rc != 0:
            res["repo_apply_failed"] = out
        else:
            from concurrent.futures import ThreadPoolExecutor

            def one(p):
                t0 = time.time()
                rc, out = sh(["./check", p, tier], cwd=VERIF, timeout=3600)
                line = [l for l in out.splitlines() if l.startswith(("VIOLATION", "OK ", "INCONCLUSIVE"))]
                viol = [l.strip()[:400] for l in out.splitlines() if "violated" in l or "DATA RACE" in l][:2]
                return p, {"rc": rc, "line": line[-1] if line else "", "why": viol, "wall_s": round(time.time() - t0, 1)}

            with ThreadPoolExecutor(max_workers=int(os.environ.get("SEEDTEST_PAR", "5"))) as ex:
                for p, r in ex.map(one, order):
                    res["checks"][p] = r
                if rest and not any(r["rc"] == 1 for r in res["checks"].values()):
                    for p, r in ex.map(one, rest):
                        res["checks"][p] = r
    finally:
        sh(["git", "-C", REPO, "checkout", "--", "."])
        os.remove(eff)
    res["caught_by"] = [p for p, r in res["checks"].items() if r["rc"] == 1]
    res["caught_by_own_check"] = prop in res["caught_by"]
    if keep:
        d = os.path.join(VERIF, "seeded", keep)
        os.makedirs(d, exist_ok=True)
        open(os.path.join(d, "patch.diff"), "w").write(res["effective_patch"])
        if os.path.abspath(demo) != os.path.abspath(os.path.join(d, "demo_test.go")):
            shutil.copy(demo, os.path.join(d, "demo_test.go"))
        notes = os.path.join(mdir, "notes.md")
        if os.path.exists(notes) and os.path.abspath(notes) != os.path.abspath(os.path.join(d, "notes.md")):
            shutil.copy(notes, os.path.join(d, "notes.md"))
        needs = open(notes, errors="replace").read()[:6000] if os.path.exists(notes) else ""
        meta = {
            "id": keep, "breaks_property": prop, "origin": "independent sub-agent given only the property text and a scratch worktree",
            "needs_to_manifest": needs,
            "confirmed": {k: res.get(k) for k in ("repo_head", "suite_passes_with_patch", "suite_failures_with_patch", "demo_fails_with_patch", "demo_passes_without_patch")},
            "what_was_run": ["scratch worktree of /repo HEAD + patch: go build ./... && go test -vet=off -count=1 ./...",
                             "demo_test.go placed in ./%s with and without the patch" % demo_location(demo),
                             "patch applied to /repo, ./check <id> %s for %s, git -C /repo checkout -- ." % (tier, "every property" if len(res["checks"]) == len(PROPS) else "the properties listed under checks (the others were not run)")],
            "checks": res["checks"], "caught_by": res["caught_by"],
            "harness_commit": sh(["git", "-C", VERIF, "log", "--format=%h", "-1", "--", "harness", "check"])[1].strip(),
        }
        json.dump(meta, open(os.path.join(d, "meta.json"), "w"), indent=1)
    out = {k: v for k, v in res.items() if k not in ("effective_patch", "demo_with_patch_tail")}
    print(json.dumps(out, indent=1))
    return 0


if __name__ == "__main__":
    sys.exit(main())
