#!/usr/bin/env python3
"""Regenerates /verif/MANIFEST.json from the table below (keeps the manifest valid while checks are
added). Run: python3 mkmanifest.py"""
import json
import os
import subprocess

HERE = os.path.dirname(os.path.abspath(__file__))

# property -> (technique, level text, level note, design ref)
CHECKS = {
    "C14": ("bounded-exhaustive enumeration of shape pairs + rapid generated pairs against a reference broadcast model",
            "Every ordered pair of shapes of rank 0..4 with extents 1..4 (quick) / 1..5 (thorough) is executed for both helpers and compared element by element with the ONNX rule; larger shapes and all 14 element types are explored with rapid. Exhaustive inside the bound the property names, exploration outside it.",
            "Trusts the harness's 20-line reference (right-aligned equal-or-1 rule, pinned-to-0 indexing) and gorgonia's At() for reading results.",
            "DESIGN.md 3 C14"),
}

NOT_YET = {}


def repo_hook_commits():
    try:
        out = subprocess.run(["git", "-C", "/repo", "log", "--format=%H %s"], capture_output=True, text=True).stdout
        return [l.split()[0] for l in out.splitlines() if "verif hook" in l]
    except Exception:
        return []


def main():
    props = [json.loads(l) for l in open(os.path.join(HERE, "properties.jsonl"))]
    checks = []
    na = []
    for p in props:
        pid = p["id"]
        if pid in CHECKS:
            tech, text, note, ref = CHECKS[pid]
            checks.append({
                "property_id": pid,
                "quick_cmd": "./check %s quick" % pid,
                "thorough_cmd": "./check %s thorough" % pid,
                "evidence_file": "/verif/evidence/%s.json" % pid,
                "replay_cmd_template": "./check %s --replay {path}" % pid,
                "engine": "harness",
                "level_claimed": {"category": "exploration", "text": text, "design_ref": ref},
                "level_note": note,
                "technique": tech,
            })
        else:
            na.append({"property_id": pid, "reason": NOT_YET.get(pid, "check not built yet in this revision of /verif (planned: see DESIGN.md section 3); nothing is claimed for it")})
    m = {
        "version": 1,
        "setup_cmd": "./setup.sh",
        "hooks": {
            "guard": "verif",
            "enable": "go build tag: the harness is compiled with `go test -c -tags verif` against /repo through a replace directive",
            "baseline_off_cmd": "cd /repo && GOFLAGS=-mod=mod GOPROXY=off GOSUMDB=off go test -json -vet=off -count=1 -timeout 25m ./...",
            "source_commits": repo_hook_commits(),
            "add_only": True,
        },
        "engines": [{
            "name": "harness",
            "path": "/verif/harness",
            "serves_properties": sorted(CHECKS),
            "kind_free_text": "Go test binary (pgregory.net/rapid v1.3.0 generators and state machines, bounded-exhaustive enumerators, native go fuzz targets, -race build for C17) compiled against /repo's working tree; driven by /verif/check",
        }],
        "checks": checks,
        "notes": "Driver: ./check <id> quick|thorough|--replay <path>. Exit 0 held / 1 VIOLATION / 2 inconclusive (build failure, outer time limit). VERIF_SEED selects the rapid seed (default 1). Known findings: /verif/known_findings.json.",
        "not_applicable": na,
    }
    with open(os.path.join(HERE, "MANIFEST.json"), "w") as f:
        json.dump(m, f, indent=1)
        f.write("\n")


if __name__ == "__main__":
    main()
