#!/usr/bin/env python3
"""Regenerates /verif/MANIFEST.json from the table below (keeps the manifest valid while checks are
added). Run: python3 mkmanifest.py"""
import json
import os
import subprocess

HERE = os.path.dirname(os.path.abspath(__file__))

# property -> (technique, level text, level note, design ref)
CHECKS = {
    "C01": ("differential testing of generated DAG programs against an independent graph evaluator (rapid)",
            "Generated well-formed graphs (fan-out/in, repeated operator types with different attributes, skipped optional inputs, permuted/omitted output names, initializer-as-input, random topological order) are loaded from marshalled bytes and Run is compared exactly, output by output, with an evaluator that shares only the operator kernels. Exploration of the program space, no proof.",
            "The evaluator uses gonnx's own operator kernels (kernel correctness is C03-C11); model.go, binding and environment handling are independent.",
            "DESIGN.md 3 C01"),
    "C02": ("model-based stateful testing (rapid state machine) with a fresh-model differential and deep snapshots",
            "Call histories (fresh inputs, re-used and refilled tensor objects, outputs fed back, batch changes, failing calls) on generated alias-route models, on models whose every operand is a caller-owned graph input (operator-level generators of C03-C11, large operands) and on the sample models; after every step outputs must be bit-identical to a freshly loaded model and caller tensors, weights and earlier outputs must be bit-identical to their snapshots.",
            "Needs the verif hook VerifParameters to observe weights; 'fresh model' is loaded from the same bytes by the same loader.",
            "DESIGN.md 3 C02"),
    "C03": ("property-based testing against a scalar reference model with constructed broadcast pairs (rapid)",
            "All 12 operators x dtypes from each operator's own gate x constructed compatible/incompatible shape pairs of rank 0..4 x special values, compared exactly with Go scalar semantics; a fraction re-run as single-node models loaded from bytes.",
            "Reference = Go's IEEE-754 / wrapping integer arithmetic and the 20-line broadcast index rule.",
            "DESIGN.md 3 C03"),
    "C04": ("property-based testing against a float64 reference with the gamma_K forward error bound (rapid)",
            "MatMul over ranks 1..5 with broadcast batches, Gemm over all transpose/alpha/beta/C forms, LinearRegressor, Scaler; shapes exact, values within (K+8)uS of a float64 reference, invalid requests must error, float32 must be computed.",
            "The bound is valid for any summation order; reference loops are the harness's own.",
            "DESIGN.md 3 C04"),
    "C05": ("property-based testing against a direct-convolution reference over constructed geometries (rapid)",
            "1-D/2-D convolutions with independent per-axis extents, kernels, strides, dilations, asymmetric pads or auto_pad, bias, float32/float64; output shape exact and values within the gamma_K bound of a seven-loop float64 reference; a refusal is accepted only for what the unchanged library does not implement (a kernel extent of 1, group != 1).",
            "Reference = ONNX output-shape and auto_pad formulas as written in the operator documentation.",
            "DESIGN.md 3 C05"),
    "C06": ("property-based testing against a float64 reference of the ONNX recurrences plus a metamorphic split relation (rapid)",
            "RNN/GRU/LSTM over all size combinations, every subset of optional inputs, attributes honoured-or-refused, float64 reference within 1e-4, and split-sequence equals whole-sequence to 1e-6.",
            "Reference equations transcribed from the ONNX operator documentation; validated against gonnx to 1.6e-7 on 20 000 cases during design.",
            "DESIGN.md 3 C06"),
    "C07": ("property-based testing against shape/element-order rules (rapid)",
            "Reshape/Flatten/Squeeze/Unsqueeze/Shape over ranks 0..5, all 14 element types, valid and invalid requests; valid requests must return the same flat element sequence with the ONNX shape, invalid ones an error value.",
            "Reference = ONNX shape rules; contents 0,1,2,... make element order observable.",
            "DESIGN.md 3 C07"),
    "C08": ("property-based testing against ONNX index formulas over flat arrays (rapid)",
            "Transpose/Concat/Slice/Gather/Expand over ranks 1..4 and all element types; every output element is compared with the source element the ONNX formula designates; a refusal is accepted only for what the unchanged library does not implement (Slice with negative indices or steps, or an empty result), never other data or another shape.",
            "Reference index formulas are the harness's own; malformed Transpose/Concat/Gather requests lie outside the quantifier (only no-panic asserted).",
            "DESIGN.md 3 C08"),
    "C09": ("property-based testing against explicit-loop reductions and a stable softmax reference (rapid)",
            "ArgMax/ReduceMax/ReduceMin over every axis subset, spelling and keepdims; Softmax/LogSoftmax over every axis with inputs across the whole finite range; per-slice non-negativity, normalisation and tolerance checks.",
            "Softmax tolerances as stated in DESIGN.md 1.6; NaN ordering not asserted.",
            "DESIGN.md 3 C09"),
    "C10": ("property-based testing against Go's math library evaluated in float64 (rapid)",
            "17 unary operators over rank 0..4, all gated dtypes and the full float range including domain boundaries and exp-overflow arguments; 4 ulp tolerance, IEEE special-value propagation, shape and dtype preserved.",
            "Trusted base: Go standard library math functions; float32 Sigmoid tolerance (8+4|x|) ulp.",
            "DESIGN.md 3 C10"),
    "C11": ("property-based testing against exact expected tensors; Cast reference through math/big (rapid)",
            "Every Constant attribute form, ConstantOfShape over all value types and shapes, Cast over all 10x10 numeric type pairs with in-range values; results compared exactly; unsupported forms must error.",
            "Cast reference uses big.Float truncation / nearest-even, not Go's generic conversion.",
            "DESIGN.md 3 C11"),
    "C12": ("round-trip property-based testing with the harness's own encoder plus native coverage-guided fuzzing (thorough)",
            "11 element types x typed/raw encodings x rank 0..4 x arbitrary bit patterns must decode bit-exactly; malformed payloads and unrepresentable data_type codes must give an error; a fraction goes through NewModelFromBytes + Run.",
            "The encoder is written from the ONNX TensorProto documentation and shares no code with the decoder.",
            "DESIGN.md 3 C12"),
    "C13": ("property-based testing of an acceptance predicate over generated signatures and supplied input sets (rapid)",
            "Signatures with fixed/symbolic/unspecified dims and initializer-shadowed inputs; supplied sets mutated in rank, fixed and dynamic sizes, names; Run must accept exactly the sets the statement's predicate accepts, return nil outputs on error and leave supplied tensors untouched; introspection equals the declaration.",
            "Predicate transcribed from the statement; rank-0 declared inputs are outside the quantifier.",
            "DESIGN.md 3 C13"),
    "C14": ("bounded-exhaustive enumeration of shape pairs + rapid generated pairs against a reference broadcast model",
            "Every ordered pair of shapes of rank 0..4 with extents 1..4 (quick) / 1..5 (thorough) is executed for both helpers and compared element by element with the ONNX rule; larger shapes and all 14 element types are explored with rapid. Exhaustive inside the bound the property names, exploration outside it.",
            "Trusts the harness's 20-line reference (right-aligned equal-or-1 rule, pinned-to-0 indexing) and gorgonia's At() for reading results.",
            "DESIGN.md 3 C14"),
    "C15": ("exhaustive enumeration of the gate space + rapid stateful interleaving of registry lookups against isolated runs",
            "Every operator x input count 0..max+2 x every element type at every position x nil at optional positions is passed through ValidateInputs (finite, enumerated completely); interleaved lookups/Init/Apply of 2..4 instances of one name must behave as in isolation; unknown names must give ErrUnsupportedOperator.",
            "Error kinds observed with errors.As(*ops.InputError); instances are compared behaviourally (zero-size operator structs share addresses).",
            "DESIGN.md 3 C15"),
    "C16": ("metamorphic property-based testing (batch vs rows, permutation, sub-selection) over sample and generated per-sample models (rapid)",
            "For the sample models and generated models with a tracked batch axis, Run on any row subset must equal the batch result restricted to those rows up to rounding; includes N=1 vs N>1, normalising/saturating operators on inputs beyond the range of exp, and a vacuity guard (Softmax over the batch axis must be flagged).",
            "Generated models are restricted to continuous operators so the rounding tolerance cannot be upset by a flipped tie.",
            "DESIGN.md 3 C16"),
    "C17": ("generated concurrent workloads under the Go race detector with a sequential differential (rapid + -race)",
            "2..16 goroutines run sequences of inputs on one shared Model (sample and generated weight-reading models, optional concurrent loaders) in a -race binary; any race report or any output differing bit-wise from the sequential baseline is a violation. No schedule enumeration.",
            "The race detector reports only races on accesses that are executed; the harness does not own the scheduler.",
            "DESIGN.md 3 C17"),
    "C18": ("exhaustive truncation + structured and byte-level mutation (rapid) + native coverage-guided fuzzing (thorough)",
            "Every prefix of the three small sample models, thousands of structurally perturbed and byte-mutated models, and a native fuzz campaign must never panic and never return (nil,nil); opset != 13 must give the unsupported-opset error; an unknown operator type must make Run fail with the unsupported-operator error.",
            "A wrong-opset model that is unloadable for another reason too may report that other error (decided by re-loading with the opset forced to 13).",
            "DESIGN.md 3 C18"),
}

NOT_YET = {}


def repo_hook_commits():
    try:
        out = subprocess.run(["git", "-C", "/repo", "log", "--format=%H %s"], capture_output=True, text=True).stdout
        return [l.split()[0] for l in out.splitlines() if "verif hook" in l]
    except Exception:
        return []


def main():
    props = [json.loads(l) for l in open(os.path.join(HERE, "properties.jsonl"))]
    checks = []
    na = []
    for p in props:
        pid = p["id"]
        if pid in CHECKS:
            tech, text, note, ref = CHECKS[pid]
            checks.append({
                "property_id": pid,
                "quick_cmd": "./check %s quick" % pid,
                "thorough_cmd": "./check %s thorough" % pid,
                "evidence_file": "/verif/evidence/%s.json" % pid,
                "replay_cmd_template": "./check %s --replay {path}" % pid,
                "engine": "harness",
                "level_claimed": {"category": "exploration", "text": text, "design_ref": ref},
                "level_note": note,
                "technique": tech,
            })
        else:
            na.append({"property_id": pid, "reason": NOT_YET.get(pid, "check not built yet in this revision of /verif (planned: see DESIGN.md section 3); nothing is claimed for it")})
    m = {
        "version": 1,
        "setup_cmd": "./setup.sh",
        "hooks": {
            "guard": "verif",
            "enable": "go build tag: the harness is compiled with `go test -c -tags verif` against /repo through a replace directive",
            "baseline_off_cmd": "cd /repo && GOFLAGS=-mod=mod GOPROXY=off GOSUMDB=off go test -json -vet=off -count=1 -timeout 25m ./...",
            "source_commits": repo_hook_commits(),
            "add_only": True,
        },
        "engines": [{
            "name": "harness",
            "path": "/verif/harness",
            "serves_properties": sorted(CHECKS),
            "kind_free_text": "Go test binary (pgregory.net/rapid v1.3.0 generators and state machines, bounded-exhaustive enumerators, native go fuzz targets, -race build for C17) compiled against /repo's working tree; driven by /verif/check",
        }],
        "checks": checks,
        "notes": "Driver: ./check <id> quick|thorough|--replay <path>. Exit 0 held / 1 VIOLATION / 2 inconclusive (build failure, outer time limit). VERIF_SEED selects the rapid seed (default 1). Known findings: /verif/known_findings.json.",
        "not_applicable": na,
    }
    with open(os.path.join(HERE, "MANIFEST.json"), "w") as f:
        json.dump(m, f, indent=1)
        f.write("\n")


if __name__ == "__main__":
    main()
