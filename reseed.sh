#!/bin/sh
# Re-confirms every kept seeded change against the current /repo HEAD and harness and rewrites its
# meta.json (patch applied to /repo for the checks and undone afterwards; one change at a time).
cd /verif
for d in seeded/*/; do
  id=$(basename "$d")
  prop=$(python3 -c "import json;print(json.load(open('$d/meta.json'))['breaks_property'])")
  python3 seedtest.py "$d" "$prop" --keep "$id" > "/tmp/reseed-$id.json" 2>&1
  python3 -c "
import json
try:
    r=json.load(open('/tmp/reseed-$id.json'))
    print('$id', 'confirmed=',r.get('confirmed'), 'caught_by=', r.get('caught_by'))
except Exception as e:
    print('$id', 'ERROR', e)"
done
