#!/bin/sh
# Re-confirms every kept seeded change against the current /repo HEAD and harness and rewrites its
# meta.json (patch applied to /repo for the checks and undone afterwards; one change at a time).
cd /verif
HC=$(git -C /verif log --format=%h -1 -- harness check)
for d in seeded/*/; do
  id=$(basename "$d")
  # ONLY='^(C01|C17)-' restricts the pass to the ids matching the regular expression
  if [ -n "$ONLY" ] && ! echo "$id" | grep -Eq "$ONLY"; then continue; fi
  # resume: skip what was already re-confirmed against this /repo HEAD (pass FORCE=1 to redo)
  if [ -z "$FORCE" ] && python3 -c "import json,sys,subprocess;h=subprocess.run(['git','-C','/repo','log','--format=%h','-1'],capture_output=True,text=True).stdout.strip();m=json.load(open('$d/meta.json'));sys.exit(0 if m['confirmed'].get('repo_head')==h and m.get('harness_commit')=='$HC' else 1)"; then continue; fi
  prop=$(python3 -c "import json;print(json.load(open('$d/meta.json'))['breaks_property'])")
  python3 seedtest.py "$d" "$prop" --keep "$id" --own-first > "/tmp/reseed-$id.json" 2>&1
  python3 -c "
import json
try:
    r=json.load(open('/tmp/reseed-$id.json'))
    print('$id', 'confirmed=',r.get('confirmed'), 'caught_by=', r.get('caught_by'))
except Exception as e:
    print('$id', 'ERROR', e)"
done
