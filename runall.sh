#!/bin/sh
# dev helper: ./runall.sh <tier> <seed> [parallelism] -- runs every check, prints one line each
tier=${1:-quick}; seed=${2:-1}; par=${3:-6}
printf '%s\n' C01 C02 C03 C04 C05 C06 C07 C08 C09 C10 C11 C12 C13 C14 C15 C16 C17 C18 | \
  xargs -P "$par" -I{} sh -c "VERIF_SEED=$seed ./check {} $tier > /tmp/runall-{}-$seed.log 2>&1; echo \"{} rc=\$? \$(grep -E '^(OK|VIOLATION|INCONCLUSIVE)' /tmp/runall-{}-$seed.log | head -1)\""
